"""Tree normalisation applied to every function body when a fact base is loaded.

Loops that visit every element of a container front to back are ONE construct, however they are spelled:

    for (const auto &x : C)                                  (the canonical form: CXXForRangeStmt)
    for (size_t i = 0; i < C.size(); ++i)   ... C[i] ...     when i is used for nothing else
    for (auto it = C.begin(); it != C.end(); ++it) ... *it / it->m ...   when it is used for nothing else

and a range-for over pairs whose variable is only used as `x.first` / `x.second` is the structured-binding form
`for (const auto &[a, b] : C)`.  The rewrite is purely syntactic and only done when it is exact (same elements, same order,
index / iterator not observable); anything else is left as it is.  The CFG is not rewritten (its elements keep pointing at the
original sub-expressions, which are reused inside the rewritten loop).
"""
import re

from .expr import canon
from .facts import kids

MUT = {'insert', 'emplace', 'emplace_back', 'push_back', 'pop_back', 'erase', 'clear', 'resize', 'assign', 'swap', 'push', 'pop', 'reserve'}


def _walk(n):
    st = [n]
    while st:
        x = st.pop()
        if isinstance(x, dict):
            yield x
            st.extend(kids(x))


def _is_ref(n, dloc):
    return isinstance(n, dict) and n.get('k') == 'DeclRefExpr' and n.get('dloc') == dloc


def _member_call(n, names):
    """(base node) of a call `base.name()` with name in names, else None."""
    if not isinstance(n, dict) or n.get('k') != 'CXXMemberCallExpr' or len(n.get('c') or ()) != 1:
        return None
    if (n.get('callee_name') or '').rsplit('::', 1)[-1] not in names:
        return None
    me = n['c'][0]
    if me.get('k') != 'MemberExpr' or not me.get('c'):
        return None
    return me['c'][0]


def _pure_lvalue(n):
    """container expression without side effects: a variable / member chain."""
    while isinstance(n, dict):
        k = n.get('k')
        if k in ('DeclRefExpr', 'CXXThisExpr'):
            return True
        if k == 'MemberExpr':
            c = n.get('c') or []
            if not c:
                return True
            n = c[0]
            continue
        if k == 'CXXMemberCallExpr' and len(n.get('c') or ()) == 1 and ((n.get('callee') or '').endswith(' const') or
                                                                       ((n.get('callee_name') or '').startswith('std::') and (n.get('callee_name') or '').rsplit('::', 1)[-1] in ('back', 'front'))):
            me = n['c'][0]
            n = (me.get('c') or [None])[0] if me.get('k') == 'MemberExpr' else None
            if n is None:
                return True
            continue
        if k in ('UnaryOperator',) and n.get('op') == '*':
            n = (n.get('c') or [None])[0]
            continue
        if k == 'CXXOperatorCallExpr' and n.get('op') in ('*', '->', '[]') and (n.get('callee') or '').endswith(' const'):
            n = n['c'][1]
            continue
        return False
    return False


def _modifies(body, cterm):
    for x in _walk(body):
        if x.get('k') == 'CXXMemberCallExpr' and (x.get('callee_name') or '').rsplit('::', 1)[-1] in MUT and not (x.get('callee') or '').endswith(' const'):
            me = x['c'][0]
            base = (me.get('c') or [None])[0] if me.get('k') == 'MemberExpr' else None
            if base is not None and canon(base, None) == cterm:
                return True
    return False


def _elem_ref(decl, like):
    return {'k': 'DeclRefExpr', 'c': [], 'ref': decl['name'], 'refk': 'Var', 'local': True, 'dloc': decl['loc'], 'loc': like.get('loc'), 'end': like.get('end'), 't': like.get('t'), 'id': like.get('id')}


def _replace(n, fn):
    """rebuild the tree bottom-up; fn(node) -> replacement or None."""
    if not isinstance(n, dict):
        return n
    r = fn(n)
    if r is not None:
        return r
    out = dict(n)
    if n.get('c'):
        out['c'] = [_replace(c, fn) for c in n['c']]
    if isinstance(n.get('init'), dict):
        out['init'] = _replace(n['init'], fn)
    if n.get('slots'):
        out['slots'] = {k: (_replace(v, fn) if isinstance(v, dict) else v) for k, v in n['slots'].items()}
    return out


def _index_loop(n):
    sl = n.get('slots') or {}
    init, cond, inc, body = sl.get('init'), sl.get('cond'), sl.get('inc'), sl.get('body')
    if not (init and cond and inc and body) or init.get('k') != 'DeclStmt' or len(init.get('c') or ()) != 1:
        return None
    d = init['c'][0]
    if d.get('k') != 'VarDecl' or not isinstance(d.get('init'), dict) or d['init'].get('k') != 'IntegerLiteral' or d['init'].get('val') != 0:
        return None
    i = d['loc']
    if not (cond.get('k') == 'BinaryOperator' and cond.get('op') == '<' and _is_ref(cond['c'][0], i)):
        return None
    cont = _member_call(cond['c'][1], ('size',))
    if cont is None or not _pure_lvalue(cont):
        return None
    if not (inc.get('k') == 'UnaryOperator' and inc.get('op') == '++' and _is_ref(inc['c'][0], i)):
        return None
    cterm = canon(cont, None)
    # every use of i in the body is the index of C[i] / C.at(i)
    uses = [x for x in _walk(body) if _is_ref(x, i)]
    if not uses or _modifies(body, cterm):
        return None
    elems = []
    for x in _walk(body):
        if x.get('k') == 'CXXOperatorCallExpr' and x.get('op') == '[]' and len(x.get('c') or ()) == 3 and _is_ref(x['c'][2], i) and canon(x['c'][1], None) == cterm:
            elems.append(x)
        elif x.get('k') == 'CXXMemberCallExpr' and (x.get('callee_name') or '').endswith('::at') and len(x.get('c') or ()) == 2 and _is_ref(x['c'][1], i):
            me = x['c'][0]
            if me.get('k') == 'MemberExpr' and me.get('c') and canon(me['c'][0], None) == cterm:
                elems.append(x)
    if len(elems) != len(uses):
        return None
    var = {'k': 'VarDecl', 'loc': d['loc'], 'name': d['name'] + '$elem', 'static': False, 't': elems[0].get('t'), 'synthetic': 'index-loop'}
    ids = {id(e) for e in elems}
    nb = _replace(body, lambda x: _elem_ref(var, x) if id(x) in ids else None)
    return {'k': 'CXXForRangeStmt', 'loc': n.get('loc'), 'end': n.get('end'), 'id': n.get('id'), 'normalised_from': 'index loop', 'alias_ids': [init.get('id')], 'slots': {'var': var, 'range': cont, 'body': nb}}


def _iter_loop(n):
    sl = n.get('slots') or {}
    init, cond, inc, body = sl.get('init'), sl.get('cond'), sl.get('inc'), sl.get('body')
    if not (init and cond and inc and body) or init.get('k') != 'DeclStmt' or len(init.get('c') or ()) not in (1, 2):
        return None
    d = init['c'][0]
    if d.get('k') != 'VarDecl' or not isinstance(d.get('init'), dict):
        return None
    endvar = None
    if len(init['c']) == 2:
        # for (auto it = C.begin(), e = C.end(); it != e; ++it): `e` is only a name for C.end()
        endvar = init['c'][1]
        if endvar.get('k') != 'VarDecl' or not isinstance(endvar.get('init'), dict):
            return None
        if sum(1 for x in _walk(n) if _is_ref(x, endvar['loc'])) != 1:
            return None
    it = d['loc']
    x0 = d['init']
    while x0.get('k') in ('CXXConstructExpr',) and len(x0.get('c') or ()) == 1:
        x0 = x0['c'][0]
    cont = _member_call(x0, ('begin', 'cbegin'))
    if cont is None or not _pure_lvalue(cont):
        return None
    cterm = canon(cont, None)
    ops = cond.get('c') or []
    if cond.get('k') == 'CXXOperatorCallExpr' and cond.get('op') == '!=' and len(ops) == 3:
        a, b = ops[1], ops[2]
    elif cond.get('k') == 'BinaryOperator' and cond.get('op') == '!=' and len(ops) == 2:
        a, b = ops
    else:
        return None
    if _is_ref(b, it):
        a, b = b, a
    while isinstance(b, dict) and b.get('k') == 'CXXConstructExpr' and len(b.get('c') or ()) == 1:
        b = b['c'][0]
    if endvar is not None:
        if not _is_ref(b, endvar['loc']):
            return None
        b = endvar['init']
        while isinstance(b, dict) and b.get('k') == 'CXXConstructExpr' and len(b.get('c') or ()) == 1:
            b = b['c'][0]
    endc = _member_call(b, ('end', 'cend'))
    if not _is_ref(a, it) or endc is None or canon(endc, None) != cterm:
        return None
    incv = inc
    if not ((incv.get('k') == 'CXXOperatorCallExpr' and incv.get('op') == '++' and _is_ref(incv['c'][1], it)) or
            (incv.get('k') == 'UnaryOperator' and incv.get('op') == '++' and _is_ref(incv['c'][0], it))):
        return None
    uses = [x for x in _walk(body) if _is_ref(x, it)]
    if not uses or _modifies(body, cterm):
        return None
    derefs = []
    for x in _walk(body):
        if x.get('k') == 'CXXOperatorCallExpr' and x.get('op') in ('*', '->') and len(x.get('c') or ()) == 2 and _is_ref(x['c'][1], it):
            derefs.append(x)
        elif x.get('k') == 'UnaryOperator' and x.get('op') == '*' and _is_ref((x.get('c') or [None])[0], it):
            derefs.append(x)
    if len(derefs) != len(uses):
        return None
    var = {'k': 'VarDecl', 'loc': d['loc'], 'name': d['name'] + '$elem', 'static': False, 't': derefs[0].get('t'), 'synthetic': 'iterator-loop'}
    ids = {id(e): e for e in derefs}

    def fn(x):
        if id(x) in ids:
            return _elem_ref(var, x)
        # it->m : MemberExpr(arrow) over `operator->(it)`; the element is an object, not a pointer
        if x.get('k') == 'MemberExpr' and x.get('arrow') and x.get('c') and id(x['c'][0]) in ids and x['c'][0].get('op') == '->':
            y = dict(x)
            y['arrow'] = False
            y['c'] = [_elem_ref(var, x['c'][0])]
            return y
        return None
    nb = _replace(body, fn)
    return {'k': 'CXXForRangeStmt', 'loc': n.get('loc'), 'end': n.get('end'), 'id': n.get('id'), 'normalised_from': 'iterator loop', 'alias_ids': [init.get('id') if len(init['c']) == 1 else d['init'].get('id')], 'slots': {'var': var, 'range': cont, 'body': nb}}


def _bloc(vloc, which):
    """a location for a synthetic binding: same file and line as the loop variable, a column no real token has."""
    a = vloc.rsplit(':', 2)
    try:
        return '%s:%s:%d' % (a[0], a[1], int(a[2]) * 1000 + which + 1)
    except (ValueError, IndexError):
        return '%s#%d' % (vloc, which)


def _pair_bindings(n):
    """for (x : C) using only x.first / x.second  ->  for ([x$first, x$second] : C)."""
    sl = n.get('slots') or {}
    var, body = sl.get('var'), sl.get('body')
    if not var or var.get('bindings') or not var.get('name') or body is None:
        return None
    v = var['loc']
    uses = [x for x in _walk(body) if _is_ref(x, v)]
    if not uses:
        return None
    mems = [x for x in _walk(body) if x.get('k') == 'MemberExpr' and x.get('c') and _is_ref(x['c'][0], v) and (x.get('member') or '').rsplit('::', 1)[-1] in ('first', 'second')
            and (x.get('member') or '').startswith('std::pair<')]
    if len(mems) != len(uses):
        return None
    names = [var['name'] + '$first', var['name'] + '$second']
    ids = {id(m): m for m in mems}

    def fn(x):
        if id(x) in ids:
            which = 0 if x['member'].endswith('first') else 1
            return {'k': 'DeclRefExpr', 'c': [], 'ref': names[which], 'refk': 'Binding', 'local': True, 'dloc': _bloc(v, which), 'loc': x.get('loc'), 'end': x.get('end'), 't': x.get('t'), 'id': x.get('id')}
        return None
    nv = dict(var)
    nv['bindings'] = names
    nv['name'] = ''
    out = dict(n)
    out['slots'] = dict(sl)
    out['slots']['var'] = nv
    out['slots']['body'] = _replace(body, fn)
    out['normalised_from'] = (n.get('normalised_from') or 'range-for') + ' + pair members'
    return out


def _own_continue(loop_body):
    """does the body contain a `continue` of this very loop?"""
    def go(n):
        if not isinstance(n, dict):
            return False
        k = n.get('k')
        if k == 'ContinueStmt':
            return True
        if k in ('WhileStmt', 'ForStmt', 'DoStmt', 'CXXForRangeStmt', 'LambdaExpr'):
            return False
        return any(go(c) for c in kids(n))
    return go(loop_body)


def _for_as_while(n):
    """`for (; cond; inc) body` is `while (cond) { body; inc; }` when no `continue` skips to the increment."""
    sl = n.get('slots') or {}
    if sl.get('cond') is None or sl.get('body') is None:
        return None
    init = sl.get('init')
    if init is not None and init.get('k') == 'DeclStmt':
        inc0 = sl.get('inc')
        stepping = isinstance(inc0, dict) and ((inc0.get('k') == 'BinaryOperator' and inc0.get('op') == '=') or (inc0.get('k') == 'CXXOperatorCallExpr' and inc0.get('op') == '='))
        if not stepping:
            return None     # a counting loop with its own variable stays a `for` (index loops that are not range-fors are matched as such)
    body, inc = sl['body'], sl.get('inc')
    if inc is not None and _own_continue(body):
        return None
    sts = list(body.get('c') or ()) if body.get('k') == 'CompoundStmt' else [body]
    nb = {'k': 'CompoundStmt', 'c': sts + ([inc] if inc is not None else []), 'loc': body.get('loc'), 'end': body.get('end'), 'id': body.get('id') if body.get('k') == 'CompoundStmt' else None}
    w = {'k': 'WhileStmt', 'loc': n.get('loc'), 'end': n.get('end'), 'id': n.get('id'), 'normalised_from': 'for without initialisation', 'slots': {'cond': sl['cond'], 'body': nb}}
    if init is None:
        return w
    # for (E; cond; inc) body  is  { E; while (cond) { body; inc; } }
    w['normalised_from'] = 'for with an expression as initialisation'
    w['id'] = None
    return {'k': 'CompoundStmt', 'c': [init, w], 'loc': n.get('loc'), 'end': n.get('end'), 'id': n.get('id'), 'normalised_from': 'for with an expression as initialisation'}


def normalise(n):
    """returns the normalised copy of a statement tree (children first)."""
    if not isinstance(n, dict):
        return n
    out = dict(n)
    if n.get('c'):
        out['c'] = [normalise(c) for c in n['c']]
    if isinstance(n.get('init'), dict):
        out['init'] = normalise(n['init'])
    if n.get('slots'):
        out['slots'] = {k: (normalise(v) if isinstance(v, dict) else v) for k, v in n['slots'].items()}
    if out.get('k') == 'ForStmt':
        r = _index_loop(out) or _iter_loop(out)
        if r is not None:
            out = r
    if out.get('k') == 'ForStmt':
        r = _for_as_while(out)
        if r is not None:
            out = r
    if out.get('k') == 'CXXForRangeStmt':
        r = _pair_bindings(out)
        if r is not None:
            out = r
    if out.get('k') == 'CompoundStmt':
        r = _split_pair_decomposition(out)
        if r is not None:
            out = r
    return out


def _loc_key(loc):
    a = (loc or '').rsplit(':', 2)
    try:
        return (a[0], int(a[1]), int(a[2]))
    except (ValueError, IndexError):
        return (loc or '', 0, 0)


def _pair_parts(e):
    """(E1, E2) when e builds a pair from two expressions: std::make_pair(E1, E2), std::pair<..>(E1, E2), std::pair<..>{E1, E2}"""
    g = 0
    while isinstance(e, dict) and g < 8:
        g += 1
        k = e.get('k')
        if k == 'CallExpr' and e.get('callee_name') == 'std::make_pair' and len(e.get('c') or ()) == 3:
            return e['c'][1], e['c'][2]
        if k in ('CXXConstructExpr', 'CXXTemporaryObjectExpr', 'InitListExpr') and len(e.get('c') or ()) == 2 and (e.get('t') or '').replace('const ', '').startswith('std::pair<'):
            return e['c'][0], e['c'][1]
        if k in ('CXXConstructExpr', 'CXXFunctionalCastExpr', 'CXXBindTemporaryExpr', 'MaterializeTemporaryExpr', 'ExprWithCleanups', 'ParenExpr', 'ImplicitCastExpr') and len(e.get('c') or ()) == 1:
            e = e['c'][0]
            continue
        return None
    return None


def _split_pair_decomposition(blk):
    """`auto [a, b] = std::make_pair(E1, E2);` (typically what is left of a pair-returning helper after inlining) is  `auto a = E1; auto b = E2;`"""
    cs = list(blk.get('c') or ())
    changed = False
    i = 0
    while i < len(cs):
        st = cs[i]
        v = st['c'][0] if isinstance(st, dict) and st.get('k') == 'DeclStmt' and len(st.get('c') or ()) == 1 else None
        parts = _pair_parts(v.get('init')) if isinstance(v, dict) and v.get('k') == 'VarDecl' and len(v.get('bindings') or ()) == 2 and isinstance(v.get('init'), dict) else None
        if parts is None or (v.get('t') or '').rstrip().endswith('&'):
            i += 1
            continue
        base = _loc_key(v.get('loc'))
        decls = []
        ok = True
        for which, (name, e) in enumerate(zip(v['bindings'], parts)):
            cands = sorted({x.get('dloc') for r in cs[i + 1:] for x in _walk(r) if x.get('k') == 'DeclRefExpr' and x.get('refk') == 'Binding' and x.get('ref') == name
                            and _loc_key(x.get('dloc'))[0] == base[0] and _loc_key(x.get('dloc'))[1:] > base[1:]}, key=_loc_key)
            if not cands:
                if _impure(e):
                    ok = False
                continue
            decls.append({'k': 'DeclStmt', 'loc': st.get('loc'), 'end': st.get('end'), 'id': st.get('id') if not decls else None,
                          'c': [{'k': 'VarDecl', 'name': name, 'loc': cands[0], 't': e.get('t'), 'static': False, 'init': e, 'c': [], 'from_binding': True}]})
        if not ok:
            i += 1
            continue
        locs = {d['c'][0]['loc'] for d in decls}

        def fn(x, locs=locs):
            if x.get('k') == 'DeclRefExpr' and x.get('refk') == 'Binding' and x.get('dloc') in locs:
                y = dict(x)
                y['refk'] = 'Var'
                y['local'] = True
                return y
            return None
        cs = cs[:i] + decls + [_replace(r, fn) for r in cs[i + 1:]]
        i += len(decls)
        changed = True
    if not changed:
        return None
    res = dict(blk)
    res['c'] = cs
    return res


# ---------------------------------------------------------------------------------------------------------------------------------
# helpers that the reviewed inventory does not know

_INL = [0]


def _simple_arg(a):
    """an argument that may be written wherever the parameter is used: a variable, a member chain, *x / &x of those, a literal."""
    g = 0
    while isinstance(a, dict) and g < 16:
        g += 1
        k = a.get('k')
        if k in ('DeclRefExpr', 'CXXThisExpr', 'IntegerLiteral', 'CXXBoolLiteralExpr', 'CXXNullPtrLiteralExpr', 'FloatingLiteral', 'StringLiteral', 'CharacterLiteral'):
            return True
        if k == 'MemberExpr':
            c = a.get('c') or []
            if not c:
                return True
            a = c[0]
        elif k == 'UnaryOperator' and a.get('op') in ('*', '&', '-'):
            a = (a.get('c') or [None])[0]
        elif k == 'CXXOperatorCallExpr' and a.get('op') in ('*', '->') and len(a.get('c') or ()) == 2:
            a = a['c'][1]
        elif k in ('CXXConstructExpr', 'ParenExpr', 'CXXFunctionalCastExpr', 'CXXStaticCastExpr') and len(a.get('c') or ()) == 1:
            a = a['c'][0]
        else:
            return False
    return False


def _rebase_this(body, obj, arrow):
    """copy of a member function body in which `this` is the object expression `obj` (reached through a pointer when arrow): implicit and explicit
    `this->m` become `obj.m` / `obj->m`, a bare `this` becomes `&obj` / `obj`."""
    def fn(x):
        if x.get('k') == 'LambdaExpr':
            return None
        if x.get('k') == 'MemberExpr':
            c = x.get('c') or []
            if not c or (c[0] or {}).get('k') == 'CXXThisExpr':
                y = dict(x)
                y['c'] = [dict(obj)]
                y['arrow'] = bool(arrow)
                return y
        if x.get('k') == 'CXXThisExpr':
            return dict(obj) if arrow else {'k': 'UnaryOperator', 'op': '&', 'c': [dict(obj)], 'loc': x.get('loc'), 't': x.get('t')}
        return None
    return _replace(body, fn)


def _param_subst(body, params, args, decls=None):
    """copy of `body` with every reference to a parameter replaced by the corresponding argument expression; the locals of the copy get
    locations of their own (two inlined copies of one helper must not share their locals).  With `decls` (a list), an argument that is not simple and
    whose parameter is used more than once is evaluated once into a local of the copy (appended to decls) instead."""
    m = {}
    _INL[0] += 1
    k = _INL[0]
    for i, (p, a) in enumerate(zip(params, args)):
        if not p.get('loc'):
            continue
        nuse = sum(1 for x in _walk(body) if _is_ref(x, p['loc']))
        if decls is not None and nuse > 1 and not _simple_arg(a):
            nloc = _bloc(p['loc'], 500 + k * 10 + i)
            v = {'k': 'VarDecl', 'loc': nloc, 'name': p.get('name') or ('arg%d' % i), 'static': False, 't': p.get('t'), 'init': a, 'synthetic': 'inlined parameter'}
            decls.append({'k': 'DeclStmt', 'c': [v], 'loc': a.get('loc'), 'end': a.get('end')})
            m[p['loc']] = {'k': 'DeclRefExpr', 'c': [], 'ref': v['name'], 'refk': 'Var', 'local': True, 'dloc': nloc, 'loc': a.get('loc'), 'end': a.get('end'), 't': a.get('t')}
        else:
            m[p['loc']] = a
    # the node ids of the helper are ids of ANOTHER function: the copy has none (the CFG of the caller only knows the call)
    def noid(n):
        if not isinstance(n, dict):
            return n
        o = {kk: v for kk, v in n.items() if kk not in ('id', 'alias_ids')}
        if o.get('c'):
            o['c'] = [noid(c) for c in o['c']]
        if isinstance(o.get('init'), dict):
            o['init'] = noid(o['init'])
        if o.get('slots'):
            o['slots'] = {kk: (noid(v) if isinstance(v, dict) else v) for kk, v in o['slots'].items()}
        return o
    body = noid(body)
    locs = {}
    for x in _walk(body):
        if x.get('k') == 'VarDecl' and x.get('loc'):
            locs[x['loc']] = _bloc(x['loc'], 100 + k)
        elif x.get('k') == 'DeclRefExpr' and x.get('refk') == 'Binding' and x.get('dloc'):
            locs[x['dloc']] = _bloc(x['dloc'], 100 + k)         # the names of a structured binding move with their declaration

    def fn(x):
        if x.get('k') == 'DeclRefExpr' and x.get('dloc') in m:
            a = m[x['dloc']]
            return dict(a)
        if x.get('k') == 'DeclRefExpr' and x.get('dloc') in locs:
            y = dict(x)
            y['dloc'] = locs[x['dloc']]
            return y
        return None
    out = _replace(body, fn)

    def reloc(n):
        if not isinstance(n, dict):
            return n
        o = dict(n)
        if o.get('k') == 'VarDecl' and o.get('loc') in locs:
            o['loc'] = locs[o['loc']]
        if o.get('c'):
            o['c'] = [reloc(c) for c in o['c']]
        if isinstance(o.get('init'), dict):
            o['init'] = reloc(o['init'])
        if o.get('slots'):
            o['slots'] = {kk: (reloc(v) if isinstance(v, dict) else v) for kk, v in o['slots'].items()}
        return o
    return reloc(out)


def _returns(body):
    return [x for x in _walk_nolambda(body) if x.get('k') == 'ReturnStmt']


def _walk_nolambda(n):
    st = [n]
    while st:
        x = st.pop()
        if isinstance(x, dict):
            yield x
            if x.get('k') == 'LambdaExpr' and x is not n:
                continue
            st.extend(kids(x))


def _is_void_return(s):
    return isinstance(s, dict) and s.get('k') == 'ReturnStmt' and not s.get('c')


def _no_returns(body):
    """the statements of a void helper with its early exits (`if (c) return;`, `if (c) { ..; return; }`, a final `return;`) rewritten as nesting
    (`if (c) { .. } else { the rest }`), or None when a return sits anywhere else."""
    def elim(stmts):
        out = []
        for i, s in enumerate(stmts):
            if _is_void_return(s):
                return out
            sl = s.get('slots') or {}
            if s.get('k') == 'IfStmt' and sl.get('else') is None and sl.get('then') is not None and any(_is_void_return(x) for x in _walk_nolambda(sl['then'])):
                t = sl['then']
                ts = list(t.get('c') or ()) if t.get('k') == 'CompoundStmt' else [t]
                if not ts or not _is_void_return(ts[-1]) or any(x.get('k') == 'ReturnStmt' for y in ts[:-1] for x in _walk_nolambda(y)):
                    return None
                rest = elim(stmts[i + 1:])
                if rest is None:
                    return None
                n = dict(s)
                n['slots'] = dict(sl)
                n['slots']['then'] = {'k': 'CompoundStmt', 'c': ts[:-1], 'loc': t.get('loc')}
                n['slots']['else'] = {'k': 'CompoundStmt', 'c': rest, 'loc': s.get('loc')}
                n['returns_eliminated'] = True
                return out + [n]
            if any(x.get('k') == 'ReturnStmt' for x in _walk_nolambda(s)):
                return None
            out.append(s)
        return out
    if body is None or body.get('k') != 'CompoundStmt':
        return None
    r = elim(list(body.get('c') or ()))
    if r is None:
        return None
    b = dict(body)
    b['c'] = r
    return b


def _returns_as(body, mk):
    """the statements of a value-returning helper with every `return E;` turned into mk(E) (an assignment to the variable that receives the result) and the
    early exits turned into nesting, or None when a return is not in tail position (inside a loop, a switch, ...) or a path returns nothing."""
    def is_ret(x):
        return isinstance(x, dict) and x.get('k') == 'ReturnStmt' and x.get('c')

    def has_ret(x):
        return any(y.get('k') == 'ReturnStmt' for y in _walk_nolambda(x))

    def conv(stmts):
        out = []
        for i, st in enumerate(stmts):
            if is_ret(st):
                return out + [mk(st['c'][0])]
            sl = st.get('slots') or {}
            if st.get('k') == 'IfStmt' and has_ret(st):
                if has_ret(sl.get('cond') or {}) or sl.get('init') is not None and has_ret(sl['init']):
                    return None
                t, e = sl.get('then'), sl.get('else')
                ts = list(t.get('c') or ()) if isinstance(t, dict) and t.get('k') == 'CompoundStmt' else ([t] if t is not None else [])
                es = list(e.get('c') or ()) if isinstance(e, dict) and e.get('k') == 'CompoundStmt' else ([e] if e is not None else [])
                rest = stmts[i + 1:]
                n = dict(st)
                n['slots'] = dict(sl)
                t_ret = any(has_ret(x) for x in ts)
                e_ret = any(has_ret(x) for x in es)
                # an arm that returns must end by returning; the other arm continues with the rest
                tc = conv(ts) if t_ret else None
                ec = conv(es) if e_ret else None
                if (t_ret and tc is None) or (e_ret and ec is None):
                    return None
                rc = None
                if not (t_ret and e_ret):
                    rc = conv(rest)
                    if rc is None:
                        return None
                n['slots']['then'] = {'k': 'CompoundStmt', 'c': tc if t_ret else ts + rc, 'loc': (t or st).get('loc')}
                n['slots']['else'] = {'k': 'CompoundStmt', 'c': ec if e_ret else es + rc, 'loc': (e or st).get('loc')}
                n['returns_eliminated'] = True
                return out + [n]
            if has_ret(st):
                return None
            out.append(st)
        return None
    if body is None or body.get('k') != 'CompoundStmt':
        return None
    r = conv(list(body.get('c') or ()))
    if r is None:
        return None
    b = dict(body)
    b['c'] = r
    return b


def _single_return_expr(body):
    if body is None or body.get('k') != 'CompoundStmt':
        return None
    st = [c for c in (body.get('c') or ()) if c.get('k') != 'NullStmt']
    if len(st) == 1 and st[0].get('k') == 'ReturnStmt' and st[0].get('c'):
        return st[0]['c'][0]
    return None


def _on_this(call):
    """is the member call made on *this (implicitly or explicitly)?"""
    if call.get('k') == 'CallExpr':
        return True
    me = (call.get('c') or [None])[0]
    if not isinstance(me, dict) or me.get('k') != 'MemberExpr':
        return False
    base = (me.get('c') or [None])[0]
    return base is None or base.get('k') == 'CXXThisExpr'


def inline_helpers(functions, inventory, root):
    """functions: {id: dict}.  A *new helper* is a function defined in the repository that the reviewed inventory does not list, non-virtual, with a body,
    called on *this (or free / static).  Its calls are replaced, where the replacement is exact:
      - `h(args)` anywhere, when the body of h is a single `return E;`            -> E[args]
      - `h(args);` as a statement, when h returns nothing and has no return        -> { body[args] }
      - `return h(args);`                                                          -> { body[args] }   (the returns of h are returns of the caller)
      - `T x = h(args);` when the only return of h is its last statement `return E;` -> { body without it; } T x = E[args];
    Every function that got a helper inlined keeps the list in d['_inlined']; the helpers are flagged d['_new_helper'] = True."""
    new = {}
    for fid, d in functions.items():
        if fid in inventory or not d.get('body') or not (d.get('loc') or '').startswith(root):
            continue
        if d.get('virtual') or d.get('kind') in ('ctor', 'dtor'):
            continue
        d['_new_helper'] = True
        new[fid] = d
    if not new:
        return 0
    # no recursion among helpers
    def calls_of(d):
        return {x.get('callee') for x in _walk(d['body']) if x.get('callee') in new}
    for fid in list(new):
        if fid in calls_of(new[fid]):
            del new[fid]
    # a helper that names its sub-expressions (`T a = ..; T b = f(a); return g(b);`) is the expression it returns, where folding its locals is exact
    set_context(functions)
    for fid, d in new.items():
        if _single_return_expr(d['body']) is None and any(x.get('k') == 'DeclStmt' for x in d['body'].get('c') or ()) \
                and all(x.get('k') in ('DeclStmt', 'ReturnStmt') for x in d['body'].get('c') or ()):
            trial = dict(d)
            fold_new_locals(trial, ())
            if _single_return_expr(trial['body']) is not None:
                d['body'] = trial['body']
    count = 0

    def expand_stmt(s, depth=0, tail=False):
        """returns a list of statements replacing s, or None.  tail: s is the last statement of a function / lambda body (a `return;` of the helper is then
        a `return;` of that body)."""
        nonlocal count
        if depth > 4:
            return None
        k = s.get('k')
        call = None
        if k in ('CXXMemberCallExpr', 'CallExpr') and s.get('callee') in new:
            call, mode = s, 'stmt'
        elif k == 'ReturnStmt' and s.get('c') and s['c'][0].get('k') in ('CXXMemberCallExpr', 'CallExpr') and s['c'][0].get('callee') in new:
            call, mode = s['c'][0], 'tail'
        elif k == 'DeclStmt' and len(s.get('c') or ()) == 1 and s['c'][0].get('k') == 'VarDecl' and isinstance(s['c'][0].get('init'), dict):
            x = s['c'][0]['init']
            while x.get('k') == 'CXXConstructExpr' and len(x.get('c') or ()) == 1:
                x = x['c'][0]
            if x.get('k') in ('CXXMemberCallExpr', 'CallExpr') and x.get('callee') in new:
                call, mode = x, 'init'
        if call is None and k == 'BinaryOperator' and s.get('op') == '=' and len(s.get('c') or ()) == 2 and s['c'][0].get('k') == 'DeclRefExpr' and s['c'][0].get('local'):
            x = s['c'][1]
            while isinstance(x, dict) and x.get('k') == 'CXXConstructExpr' and len(x.get('c') or ()) == 1:
                x = x['c'][0]
            if isinstance(x, dict) and x.get('k') in ('CXXMemberCallExpr', 'CallExpr') and x.get('callee') in new:
                call, mode = x, 'assign'
        if call is None and k == 'IfStmt' and not (s.get('slots') or {}).get('else') and not (s.get('slots') or {}).get('init'):
            # `if (!h(args)) return false;` where h answers false on its early exits and true only at its very end: the body of h with its last
            # `return true;` dropped does exactly that
            c = s['slots'].get('cond')
            t = s['slots'].get('then')
            while isinstance(t, dict) and t.get('k') == 'CompoundStmt' and len(t.get('c') or ()) == 1:
                t = t['c'][0]
            def lit(r, v):
                return isinstance(r, dict) and r.get('k') == 'ReturnStmt' and r.get('c') and r['c'][0].get('k') == 'CXXBoolLiteralExpr' and bool(r['c'][0].get('val')) == v
            if isinstance(c, dict) and c.get('k') == 'UnaryOperator' and c.get('op') == '!' and c.get('c') and c['c'][0].get('k') in ('CXXMemberCallExpr', 'CallExpr') \
                    and c['c'][0].get('callee') in new and _on_this(c['c'][0]) and isinstance(t, dict) and t.get('k') == 'ReturnStmt' and \
                    not any(x.get('k') in ('CXXMemberCallExpr', 'CallExpr', 'CXXOperatorCallExpr') for x in _walk(t)):
                # `if (!h(args)) return X;` where h answers false on its early exits and true only at its very end: the body of h with every `return false;`
                # turned into `return X;` and its last `return true;` dropped does exactly that
                cl = c['c'][0]
                h = new[cl['callee']]
                top = list(h['body'].get('c') or ())
                rets = _returns(h['body'])
                args = (cl.get('c') or [])[1:]
                if top and lit(top[-1], True) and all(lit(r, False) for r in rets if r is not top[-1]) and len(args) == len(h.get('params') or ()):
                    count += 1
                    pre = {'k': 'CompoundStmt', 'c': top[:-1], 'loc': h['body'].get('loc')}
                    pre = _param_subst(pre, h.get('params') or [], args)
                    if not lit(t, False):
                        def as_caller(x, t=t):
                            if x.get('k') == 'LambdaExpr':
                                return x
                            if lit(x, False):
                                y = dict(t)
                                y.pop('id', None)
                                return y
                            return None
                        pre = _replace(pre, as_caller)
                    return [pre]
        if call is None:
            return None
        h = new[call['callee']]
        body = h['body']
        if not _on_this(call):
            # a helper of another object, called on a plain variable / member (`sv.h(..)`, `p->h(..)`): its body with that object for `this`
            me = (call.get('c') or [None])[0]
            obj = (me.get('c') or [None])[0] if isinstance(me, dict) and me.get('k') == 'MemberExpr' else None
            if obj is None or not _simple_arg(obj) or mode != 'stmt':
                return None
            body = _rebase_this(body, obj, me.get('arrow'))
        args = (call.get('c') or [])[1:]
        params = h.get('params') or []
        if len(args) != len(params):
            return None
        rets = _returns(body)
        if mode == 'stmt':
            if rets and not (tail and not any(r.get('c') for r in rets)):
                body = _no_returns(body)
                if body is None:
                    return None
            count += 1
            decls = []
            blk = _param_subst(body, params, args, decls)
            if decls:
                blk = dict(blk)
                blk['c'] = decls + list(blk.get('c') or ())
            return [blk]
        if mode == 'tail':
            count += 1
            return [_param_subst(body, params, args)]
        if mode == 'assign':
            # `x = h(args);`: the body of h with every `return E;` turned into `x = E;`
            def mk(e, s=s):
                a = dict(s)         # keeps the id of the assignment: the CFG element of `x = h(..)` stands for (one of) the assignments it became
                a['c'] = [s['c'][0], e]
                return a
            b2 = _returns_as(_param_subst(body, params, args), mk)
            if b2 is None:
                return None
            count += 1
            return [b2]
        if mode == 'init':
            top = list(body.get('c') or ())
            if len(rets) != 1 or not top or top[-1] is not rets[0] or not rets[0].get('c'):
                # several returns: `T x = h(args);` is `T x; <x = E at every return of h>` when the returns are in tail position (scalars / pointers only)
                vd = s['c'][0]
                tt = (vd.get('t') or '').replace('const ', '')
                if not (tt.rstrip().endswith('*') or tt in ('bool', 'int', 'long', 'unsigned long', 'double', 'unsigned short', 'smt::lit')) or vd.get('bindings'):
                    return None
                ref = {'k': 'DeclRefExpr', 'c': [], 'ref': vd.get('name'), 'refk': 'Var', 'local': True, 'dloc': vd.get('loc'), 'loc': vd.get('loc'), 't': vd.get('t')}

                def mk2(e, ref=ref, s=s):
                    return {'k': 'BinaryOperator', 'op': '=', 'c': [dict(ref), e], 't': ref.get('t'), 'loc': s.get('loc'), 'end': s.get('end')}
                b2 = _returns_as(_param_subst(body, params, args), mk2)
                if b2 is None:
                    return None
                nd = dict(vd)
                nd['init'] = None
                ns = dict(s)
                ns['c'] = [nd]
                count += 1
                return [ns, b2]
            pre = {'k': 'CompoundStmt', 'c': top[:-1], 'loc': body.get('loc')}
            pre = _param_subst(pre, params, args)
            e = _param_subst(rets[0]['c'][0], params, args)
            ns = dict(s)
            nd = dict(s['c'][0])
            nd['init'] = e
            ns['c'] = [nd]
            count += 1
            return list(pre.get('c') or ()) + [ns]
        return None

    def rewrite(n, tail_body=False):
        nonlocal count
        if not isinstance(n, dict):
            return n
        out = dict(n)
        if n.get('c'):
            cs = []
            for c in n['c']:
                c2 = rewrite(c, tail_body=(n.get('k') == 'LambdaExpr' and isinstance(c, dict) and c.get('k') == 'CompoundStmt'))
                if n.get('k') == 'CompoundStmt':
                    ex = expand_stmt(c2, tail=tail_body and c is n['c'][-1])
                    if ex is not None:
                        cs.extend(rewrite(x) for x in ex)
                        continue
                cs.append(c2)
            out['c'] = cs
        if isinstance(n.get('init'), dict):
            out['init'] = rewrite(n['init'])
        if n.get('slots'):
            sl = {}
            for key, v in n['slots'].items():
                v2 = rewrite(v) if isinstance(v, dict) else v
                if key in ('then', 'else', 'body') and isinstance(v2, dict) and v2.get('k') != 'CompoundStmt':
                    ex = expand_stmt(v2)
                    if ex is not None:
                        v2 = {'k': 'CompoundStmt', 'c': [rewrite(x) for x in ex], 'loc': v2.get('loc')}
                sl[key] = v2
            out['slots'] = sl
        # expression-level: single-return helpers
        if out.get('k') in ('CXXMemberCallExpr', 'CallExpr') and out.get('callee') in new and _on_this(out):
            h = new[out['callee']]
            e = _single_return_expr(h['body'])
            args = (out.get('c') or [])[1:]
            if e is not None and len(args) == len(h.get('params') or ()):
                count += 1
                r = _param_subst(e, h.get('params') or [], args)
                return rewrite(r)
        return out
    for fid, d in functions.items():
        if not d.get('body') or not (d.get('loc') or '').startswith(root) or fid in new:
            continue
        if not any(x.get('callee') in new for x in _walk(d['body'])) and not any(x.get('callee') in new for io in d.get('inits') or () if isinstance(io.get('init'), dict) for x in _walk(io['init'])):
            continue
        before = count
        d['body'] = rewrite(d['body'], tail_body=True)
        for io in d.get('inits') or ():
            if isinstance(io.get('init'), dict) and any(x.get('callee') in new for x in _walk(io['init'])):
                io['init'] = rewrite(io['init'])
        if count > before:
            d['_inlined'] = sorted({x for x in new if x in {y.get('callee') for y in _walk(d['body'])}} | set(d.get('_inlined') or ()))
    return count


# ---------------------------------------------------------------------------------------------------------------------------------
# locals that the reviewed inventory does not know
#
# A local that names a sub-expression (`const lbool v = value(p); if (v == True) ..`, `const layer &l = trail.back();`, `const bool ok = new_clause(..);
# if (!ok) throw ..`) is only a spelling.  The locals of every reviewed function are recorded in the inventory by *shape* (type and initialiser, the
# names of the variables they mention left out); a local that is not there is replaced by its initialiser in the tree - when that is exact:
#   - value initialisers without effects: nothing that the initialiser reads is written between the declaration and the last use;
#   - an initialiser with effects (a call that creates or posts something): one use only, in the very next statement, at a place that statement
#     evaluates first and unconditionally.
# Anything else stays as it is.

def _strip_t(t):
    t = re.sub(r'\bconst\b', '', (t or '')).replace('&', '').strip()
    return ' '.join(t.split())


def _anon(n):
    def fn(x):
        if x.get('k') == 'DeclRefExpr' and (x.get('local') or x.get('refk') in ('ParmVar', 'Binding')) and x.get('refk') in ('Var', 'ParmVar', 'Binding', 'Decomposition'):
            y = dict(x)
            y['ref'] = '$' + _strip_t(x.get('t'))
            y['c'] = []
            return y
        if x.get('k') == 'VarDecl' and x.get('name'):
            y = dict(x)
            y['name'] = '$'
            if isinstance(x.get('init'), dict):
                y['init'] = _replace(x['init'], fn)
            return y
        return None
    return _replace(n, fn)


def local_key(d):
    """name-independent shape of a local declaration (a loop variable: the range it visits)."""
    init = d.get('init')
    try:
        if d.get('_range') is not None:
            ini = 'each ' + repr(canon(_anon(d['_range']), None))
        else:
            ini = repr(canon(_anon(init), None)) if isinstance(init, dict) else None
    except Exception:
        ini = '?'
    from .facts import REPO
    root = REPO.rstrip('/') + '/'
    return ('%s|%s' % (_strip_t(d.get('t')), ini)).replace(root, '')


def local_decls(body):
    out = []
    for x in _walk(body):
        if x.get('k') == 'CXXForRangeStmt' and isinstance((x.get('slots') or {}).get('var'), dict):
            x['slots']['var']['_range'] = x['slots'].get('range')
        if x.get('k') == 'VarDecl' and x.get('loc'):
            out.append(x)
    return out


def local_keys(body):
    """[[shape, name]] of the locals of a function body."""
    return sorted([local_key(d), d.get('name') or ''] for d in local_decls(body))


def _new_locals(body, known):
    """the declarations of `body` whose shape the inventory ([[shape, name]]) does not have.  A new shape with the name (else the type) of a shape that
    disappeared is the old local with a changed initialiser: it stays a local."""
    avail = {}
    for k, nm in known:
        avail.setdefault(k, []).append(nm)
    new = []
    for d in local_decls(body):
        k = local_key(d)
        if avail.get(k):
            nms = avail[k]
            nms.remove(d.get('name')) if d.get('name') in nms else nms.pop()
        else:
            new.append(d)
    if not new:
        return []
    missing = [(k.split('|', 1)[0], nm) for k, nms in avail.items() for nm in nms]
    rest = []
    for d in new:
        nm = d.get('name') or ''
        hit = [m for m in missing if nm and m[1] == nm]
        if hit:
            missing.remove(hit[0])
        else:
            rest.append(d)
    out = []
    for d in rest:
        t = _strip_t(d.get('t'))
        hit = [m for m in missing if m[0] == t]
        if hit:
            missing.remove(hit[0])
        else:
            out.append(d)
    return out


_ASSIGN = ('=', '+=', '-=', '*=', '/=', '%=', '|=', '&=', '^=', '<<=', '>>=')


def _lv_path(x, members, locs):
    """what a modification through the lvalue x changes: the innermost member of the access path (the objects above it are only traversed) and the
    local object the path starts from - unless the path goes through a pointer held by that local (`p->m = ..` changes *p, not p)."""
    g = 0
    first = True
    deref = False
    while isinstance(x, dict) and g < 32:
        g += 1
        k = x.get('k')
        if k == 'DeclRefExpr':
            if x.get('dloc') and not deref:
                locs.add(x['dloc'])
            return
        if k == 'MemberExpr':
            if x.get('member') and first:
                members.add(x['member'])
                first = False
            if x.get('arrow'):
                deref = True
            x = (x.get('c') or [None])[0]
        elif k in ('ArraySubscriptExpr', 'ParenExpr'):
            x = (x.get('c') or [None])[0]
        elif k == 'UnaryOperator' and x.get('op') == '*':
            deref = True
            x = (x.get('c') or [None])[0]
        elif k == 'CXXOperatorCallExpr' and x.get('op') in ('[]', '*', '->'):
            if x.get('op') in ('*', '->'):
                deref = True
            x = x['c'][1] if len(x.get('c') or ()) > 1 else None
        elif k == 'CXXMemberCallExpr':
            me = x['c'][0]
            x = (me.get('c') or [None])[0] if me.get('k') == 'MemberExpr' else None
        else:
            return


_CTX = {'functions': None, 'mod': {}, 'read': {}, 'over': None}


def set_context(functions):
    _CTX['functions'] = functions
    _CTX['mod'] = {}
    _CTX['read'] = {}
    _CTX['over'] = None


def _overriders(fid):
    if _CTX['over'] is None:
        o = {}
        for k, f in (_CTX['functions'] or {}).items():
            for b in f.get('overrides') or ():
                o.setdefault(b, set()).add(k)
        _CTX['over'] = o
    out, st = set(), [fid]
    while st:
        k = st.pop()
        for x in _CTX['over'].get(k, ()):
            if x not in out:
                out.add(x)
                st.append(x)
    return out


def modset(fid, _stack=None):
    """member names a repository function may write, transitively through the functions it calls (virtual calls: every overrider)."""
    fns = _CTX['functions'] or {}
    memo = _CTX['mod']
    if fid in memo:
        return memo[fid]
    f = fns.get(fid)
    if f is None or not f.get('body'):
        return frozenset()
    memo[fid] = frozenset()          # recursion: fix-point by iteration below
    cur = frozenset()
    for _ in range(6):
        m, _l = _writes(f['body'])
        for io in f.get('inits') or ():
            pass
        m = frozenset(m)
        if m == cur:
            break
        cur = m
        memo[fid] = cur
    return cur


def _writes(n):
    """(member names, local declarations) that the statement may modify: assignments, ++/--, non-const calls on an object, address taken, and what the
    repository functions it calls may write."""
    members, locs = set(), set()
    for x in _walk(n):
        k = x.get('k')
        cal = x.get('callee')
        if cal and _CTX['functions'] is not None and k in ('CXXMemberCallExpr', 'CallExpr', 'CXXConstructExpr', 'CXXTemporaryObjectExpr', 'CXXOperatorCallExpr'):
            tg = [cal]
            if x.get('virtual'):
                tg += list(_overriders(cal))
            for t in tg:
                if t in _CTX['functions']:
                    members |= modset(t)
        if k == 'CXXMemberCallExpr' and not (x.get('callee') or '').endswith(' const'):
            me = x['c'][0]
            if me.get('k') == 'MemberExpr':
                nm = (x.get('callee_name') or '')
                if True:
                    _lv_path((me.get('c') or [None])[0], members, locs)
        elif k == 'CXXOperatorCallExpr' and x.get('op') in _ASSIGN + ('++', '--', '<<', '>>') and len(x.get('c') or ()) > 1 and not (x.get('callee') or '').endswith(' const'):
            _lv_path(x['c'][1], members, locs)
        elif k in ('BinaryOperator', 'CompoundAssignOperator') and x.get('op') in _ASSIGN:
            _lv_path(x['c'][0], members, locs)
        elif k == 'UnaryOperator' and x.get('op') in ('++', '--', '&'):
            _lv_path((x.get('c') or [None])[0], members, locs)
        elif k == 'CallExpr' and x.get('callee_name') in ('std::swap', 'std::move', 'std::sort', 'std::fill'):
            for a in (x.get('c') or [])[1:]:
                _lv_path(a, members, locs)
    return members, locs


def readset(fid):
    """member names a repository function may read, transitively."""
    fns = _CTX['functions'] or {}
    memo = _CTX.setdefault('read', {})
    if fid in memo:
        return memo[fid]
    f = fns.get(fid)
    if f is None or not f.get('body'):
        return frozenset()
    memo[fid] = frozenset()
    cur = frozenset()
    for _ in range(6):
        m, _l = _reads(f['body'])
        m = frozenset(m)
        if m == cur:
            break
        cur = m
        memo[fid] = cur
    return cur


def _reads(n):
    members, locs = set(), set()
    for x in _walk(n):
        if x.get('k') == 'MemberExpr' and x.get('member'):
            members.add(x['member'])
        elif x.get('k') == 'DeclRefExpr' and x.get('dloc'):
            locs.add(x['dloc'])
        cal = x.get('callee')
        if cal and _CTX['functions'] is not None and cal in _CTX['functions']:
            tg = [cal] + (list(_overriders(cal)) if x.get('virtual') else [])
            for t in tg:
                members |= readset(t)
    return members, locs


def _impure(init):
    for x in _walk(init):
        k = x.get('k')
        if k in ('CXXNewExpr', 'LambdaExpr'):
            return True
        if k == 'CXXMemberCallExpr' and not (x.get('callee') or '').endswith(' const') and not (x.get('callee_name') or '').startswith('std::') and \
                not (x.get('callee_name') or '').rsplit('::', 1)[-1].startswith(('get_', 'is_')):
            return True
        if k == 'CallExpr' and not (x.get('callee_name') or '').startswith('std::') and x.get('callee_name') and \
                not (x.get('callee_name') or '').rsplit('::', 1)[-1].startswith(('get_', 'is_', 'to_string', 'variable', 'index', 'sign')):
            f = x.get('callee') or ''
            if not f.endswith(' const'):
                return True
        if k in ('BinaryOperator', 'CompoundAssignOperator') and x.get('op') in _ASSIGN:
            return True
        if k == 'UnaryOperator' and x.get('op') in ('++', '--'):
            return True
        if k == 'CXXOperatorCallExpr' and x.get('op') in _ASSIGN + ('++', '--'):
            return True
    return False


def _uncond(e):
    """the sub-expressions of e that are evaluated whenever e is (not the right side of && / ||, not the arms of ?:, not lambda bodies)."""
    st = [e]
    while st:
        x = st.pop()
        if not isinstance(x, dict):
            continue
        yield x
        k = x.get('k')
        if k == 'LambdaExpr':
            continue
        c = list(x.get('c') or ())
        if k == 'BinaryOperator' and x.get('op') in ('&&', '||'):
            c = c[:1]
        elif k == 'ConditionalOperator':
            c = c[:1]
        if isinstance(x.get('init'), dict):
            st.append(x['init'])
        st.extend(c)


def _head(s):
    """the expressions that statement s evaluates first, exactly once."""
    k = s.get('k')
    sl = s.get('slots') or {}
    if k == 'IfStmt':
        if sl.get('init') is not None:
            return [sl['init']]
        return [x for x in (sl.get('condvar'), sl.get('cond')) if x is not None][:1]
    if k == 'SwitchStmt':
        return [x for x in (sl.get('init'), sl.get('cond')) if x is not None][:1]
    if k == 'CXXForRangeStmt':
        return [sl['range']] if sl.get('range') is not None else []
    if k in ('WhileStmt', 'ForStmt', 'DoStmt', 'CompoundStmt', 'CXXTryStmt', 'LabelStmt', 'CaseStmt', 'DefaultStmt'):
        if k == 'ForStmt' and sl.get('init') is not None:
            return [sl['init']]
        return []
    if k == 'DeclStmt':
        ds = [d for d in (s.get('c') or ()) if d.get('k') == 'VarDecl']
        return [ds[0]['init']] if ds and isinstance(ds[0].get('init'), dict) else []
    return [s]


def _falls(s):
    """can control continue after statement s (structurally)?"""
    k = s.get('k')
    if k in ('ReturnStmt', 'CXXThrowExpr', 'BreakStmt', 'ContinueStmt', 'GotoStmt'):
        return False
    if k == 'CompoundStmt':
        return all(_falls(c) for c in (s.get('c') or ()))
    if k == 'IfStmt':
        sl = s['slots']
        return sl.get('else') is None or _falls(sl['then']) or _falls(sl['else']) if sl.get('then') is not None else True
    return True


def _live_writes(s):
    """writes of s that control can fall out of s after: the arms that always leave (return / throw / continue / break) do not count."""
    k = s.get('k')
    if k == 'CompoundStmt':
        m, l = set(), set()
        for c in s.get('c') or ():
            a, b = _live_writes(c)
            m |= a
            l |= b
            if not _falls(c):
                if not _falls(s):
                    return set(), set()
                break
        if not _falls(s):
            return set(), set()
        return m, l
    if k == 'IfStmt':
        sl = s['slots']
        m, l = set(), set()
        for h in (sl.get('init'), sl.get('condvar'), sl.get('cond')):
            if h is not None:
                a, b = _writes(h)
                m |= a
                l |= b
        for arm in (sl.get('then'), sl.get('else')):
            if arm is not None and _falls(arm):
                a, b = _live_writes(arm)
                m |= a
                l |= b
        return m, l
    if not _falls(s):
        return set(), set()
    return _writes(s)


def _is_copy(n):
    from .expr import is_copy_ctor
    return is_copy_ctor(n)


def fold_new_locals(d, known, stats=None):
    """replaces, in function dict d, the locals the inventory does not know by their initialisers (where exact).  Returns the number folded."""
    body = d.get('body')
    if not body:
        return 0
    folded = 0
    for _round in range(24):
        new = _new_locals(body, known)
        if not new:
            break
        newlocs = {x['loc'] for x in new}
        done = False

        def try_block(blk):
            nonlocal done, folded
            cs = blk.get('c') or []
            for i, s in enumerate(cs):
                if s.get('k') != 'DeclStmt':
                    continue
                ds = [x for x in (s.get('c') or ()) if x.get('k') == 'VarDecl']
                if len(ds) != 1 or len(s.get('c') or ()) != 1:
                    continue
                v = ds[0]
                if v.get('loc') not in newlocs or v.get('static') or v.get('bindings') or not isinstance(v.get('init'), dict) or v['loc'] in tried:
                    continue
                tried.add(v['loc'])
                t0 = v.get('t') or ''
                isref = t0.rstrip().endswith('&')
                tt = t0.replace('const ', '')
                if tt.startswith(('std::map<', 'std::set<', 'std::vector<', 'std::unordered_', 'std::list<', 'std::queue<', 'std::deque<')) and not t0.startswith('const ') and not isref:
                    continue
                init = v['init']
                while init.get('k') == 'CXXConstructExpr' and _is_copy(init):
                    init = init['c'][0]
                if any(x.get('k') == 'ConditionalOperator' for x in _walk(init)):
                    continue        # a selected value stays a declaration: the path enumeration splits it into the paths of its arms
                rest = cs[i + 1:]
                uses = []       # (sibling index, node)
                for j, r in enumerate(rest):
                    for x in _walk(r):
                        if _is_ref(x, v['loc']):
                            uses.append((j, x))
                if not uses:
                    continue
                # the local itself must never be written (value) / re-seated
                wm, wl = _writes({'k': 'CompoundStmt', 'c': rest})
                if v['loc'] in wl and not isref:
                    continue
                if _impure(init):
                    if len(uses) != 1 or uses[0][0] != 0:
                        continue
                    u = uses[0][1]
                    heads = _head(rest[0])
                    if not any(y is u for h in heads for y in _uncond(h)):
                        continue
                    if any(x.get('as') for x in _anc_chain(rest[0], u)):
                        continue
                else:
                    rm, rl = _reads(init)
                    if not _uses_see_no_write({'k': 'CompoundStmt', 'c': rest}, {id(u) for _, u in uses}, rm, rl):
                        continue
                ids = {id(u) for _, u in uses}
                ini = init

                def fn(x, ids=ids, ini=ini):
                    if id(x) in ids:
                        y = dict(ini)
                        y['folded_from'] = v.get('name')
                        return y
                    return None
                blk['c'] = cs[:i] + [_replace(r, fn) for r in rest]
                folded += 1
                done = True
                if stats is not None:
                    stats.append((d.get('id'), v.get('name')))
                return True
            return False

        tried = set()
        progressed = False
        for blk in [x for x in _walk(body) if x.get('k') == 'CompoundStmt']:
            if try_block(blk):
                progressed = True
                break
        if not progressed:
            break
    return folded



def _anc_chain(root, target):
    """nodes on the way from root down to target (inclusive of root)."""
    path = []

    def go(n):
        if n is target:
            return True
        for c in kids(n):
            if go(c):
                path.append(n)
                return True
        return False
    go(root)
    return path


def _uses_see_no_write(stmt, use_ids, rm, rl):
    """evaluation-order scan: does every use (by node identity) come before any write to the members rm / locals rl that may have happened since the
    start of stmt?  Loops: a use inside sees every write of the loop; lambdas: a use inside sees every write of stmt."""
    allw = _writes(stmt)

    def clash(acc):
        return bool((acc[0] & rm) or (acc[1] & rl))

    def has_use(n):
        return any(id(x) in use_ids for x in _walk(n))

    def expr(e, acc):
        """an expression (or opaque statement): uses read first, then its writes happen"""
        if e is None:
            return acc, True
        if has_use(e):
            inl = False
            for x in _walk(e):
                if x.get('k') == 'LambdaExpr' and has_use(x):
                    inl = True
            if inl and clash(allw):
                return acc, False
            if clash(acc):
                return acc, False
        w = _writes(e)
        return (acc[0] | w[0], acc[1] | w[1]), True

    def scan(s, acc):
        """returns (acc after s, ok)"""
        if s is None:
            return acc, True
        k = s.get('k')
        sl = s.get('slots') or {}
        if k == 'CompoundStmt':
            for c in s.get('c') or ():
                acc, ok = scan(c, acc)
                if not ok:
                    return acc, False
                if not _falls(c):
                    break
            return acc, True
        if k == 'IfStmt':
            for h in (sl.get('init'), sl.get('condvar'), sl.get('cond')):
                acc, ok = expr(h, acc)
                if not ok:
                    return acc, False
            outs = []
            for arm in (sl.get('then'), sl.get('else')):
                a2, ok = scan(arm, acc)
                if not ok:
                    return acc, False
                if arm is None or _falls(arm):
                    outs.append(a2)
            if not outs:
                return acc, True
            return (set().union(*[o[0] for o in outs]), set().union(*[o[1] for o in outs])), True
        if k == 'SwitchStmt' and isinstance(sl.get('body'), dict) and sl['body'].get('k') == 'CompoundStmt':
            # the arms of a switch are alternatives: an arm sees what was written before the switch and, when the arm above falls into it, what that arm wrote
            acc, ok = expr(sl.get('cond'), acc)
            if not ok:
                return acc, False
            acc0 = acc
            cur = acc0
            prev_falls = False
            outs = [acc0]
            for c in sl['body'].get('c') or ():
                inner = c
                labelled = False
                while isinstance(inner, dict) and inner.get('k') in ('CaseStmt', 'DefaultStmt'):
                    labelled = True
                    inner = (inner.get('c') or [None])[-1]
                if labelled:
                    cur = (acc0[0] | cur[0], acc0[1] | cur[1]) if prev_falls else acc0
                if isinstance(inner, dict) and inner.get('k') == 'BreakStmt':
                    outs.append(cur)
                    prev_falls = False
                    continue
                cur, ok = scan(inner, cur)
                if not ok:
                    return acc, False
                prev_falls = inner is None or _falls(inner)
                if isinstance(inner, dict) and inner.get('k') == 'CompoundStmt' and any(x.get('k') == 'BreakStmt' for x in (inner.get('c') or ())):
                    prev_falls = False
                    outs.append(cur)
            outs.append(cur)
            return (set().union(*[o[0] for o in outs]), set().union(*[o[1] for o in outs])), True
        if k in ('WhileStmt', 'ForStmt', 'DoStmt', 'CXXForRangeStmt', 'SwitchStmt'):
            if k == 'ForStmt':
                acc, ok = expr(sl.get('init'), acc)
                if not ok:
                    return acc, False
            if k == 'CXXForRangeStmt':
                acc, ok = expr(sl.get('range'), acc)
                if not ok:
                    return acc, False
            if k == 'SwitchStmt':
                acc, ok = expr(sl.get('cond'), acc)
                if not ok:
                    return acc, False
            w = _writes(s)
            acc2 = (acc[0] | w[0], acc[1] | w[1])
            if has_use(s) and k != 'SwitchStmt':
                for part in (sl.get('cond'), sl.get('inc'), sl.get('body')):
                    if part is not None and has_use(part) and clash(acc2):
                        return acc, False
                # uses inside: every one sees acc2
                return acc2, True
            if k == 'SwitchStmt' and has_use(sl.get('body') or {}):
                if clash(acc2):
                    return acc, False
            return acc2, True
        if k in ('AttributedStmt', 'LabelStmt', 'CaseStmt', 'DefaultStmt'):
            c = s.get('c') or []
            return scan(c[-1], acc) if c else (acc, True)
        if k == 'CXXTryStmt':
            w = _writes(s)
            acc2 = (acc[0] | w[0], acc[1] | w[1])
            if has_use(s) and clash(acc2):
                return acc, False
            return acc2, True
        return expr(s, acc)
    _a, ok = scan(stmt, (set(), set()))
    return ok


# ---------------------------------------------------------------------------------------------------------------------------------
# constructs that the path / loop model does not interpret

ALGS = {'any_of', 'all_of', 'none_of', 'find_if', 'find_if_not', 'for_each', 'transform', 'accumulate', 'count_if', 'copy_if', 'remove_if', 'min_element', 'max_element',
        'sort', 'stable_sort', 'partition', 'replace_if', 'inner_product', 'reduce', 'generate', 'for_each_n', 'adjacent_find', 'equal', 'mismatch', 'lower_bound', 'upper_bound'}


def opaque_tokens(body):
    """what a function contains that is evaluated by no rule engine: calls of standard algorithms that take a lambda, lambdas that are not an argument
    of a call (kept in a local, invoked in place), do-while loops, gotos.  Recorded per function in the reviewed inventory; a function that has MORE of
    them than the inventory says has been reshaped with constructs the analysis cannot see through."""
    out = []
    arg_lambdas = set()
    for x in _walk(body):
        k = x.get('k')
        if k in ('CallExpr', 'CXXMemberCallExpr', 'CXXOperatorCallExpr', 'CXXConstructExpr') :
            has = False
            for a in (x.get('c') or ())[0 if k == 'CXXConstructExpr' else 1:]:
                y = a
                g = 0
                while isinstance(y, dict) and y.get('k') in ('CXXConstructExpr', 'CXXFunctionalCastExpr', 'CXXBindTemporaryExpr', 'MaterializeTemporaryExpr', 'ExprWithCleanups') and len(y.get('c') or ()) == 1 and g < 6:
                    y = y['c'][0]
                    g += 1
                if isinstance(y, dict) and y.get('k') == 'LambdaExpr':
                    arg_lambdas.add(id(y))
                    has = True
            nm = (x.get('callee_name') or '')
            if k == 'CallExpr' and nm.startswith('std::') and nm.rsplit('::', 1)[-1] in ALGS and has:
                # only an algorithm whose lambda DOES something can hide what a rule looks for; a pure predicate (any_of / find_if over a test) is a value
                # like any other and stays visible as a condition or an initialiser
                lams = [y for y in _walk(x) if y.get('k') == 'LambdaExpr']
                if any(_impure(l['c'][0]) for l in lams if l.get('c')) or nm.rsplit('::', 1)[-1] in ('for_each', 'transform', 'accumulate', 'generate', 'for_each_n', 'copy_if', 'remove_if', 'replace_if', 'partition'):
                    out.append('alg-effect')
                elif nm.rsplit('::', 1)[-1] in ('any_of', 'all_of', 'none_of'):
                    out.append('quant')         # never a reason to decline (new_opaque); a NEW one makes the function a candidate for desugar()
        elif k == 'GotoStmt':
            out.append('goto')
    for x in _walk(body):
        if x.get('k') == 'LambdaExpr' and id(x) not in arg_lambdas:
            out.append('lambda-local')
    return sorted(out)


def new_opaque(body, known):
    cur = opaque_tokens(body)
    left = list(known or ())
    new = []
    for t in cur:
        if t == 'quant':
            continue
        if t in left:
            left.remove(t)
        else:
            new.append(t)
    return new


# ---------------------------------------------------------------------------------------------------------------------------------
# standard algorithms that are loops, lambdas that are blocks

def _unwrap(x):
    g = 0
    while isinstance(x, dict) and x.get('k') in ('CXXConstructExpr', 'CXXFunctionalCastExpr', 'CXXBindTemporaryExpr', 'MaterializeTemporaryExpr', 'ExprWithCleanups', 'ParenExpr') \
            and len(x.get('c') or ()) == 1 and g < 8:
        x = x['c'][0]
        g += 1
    return x


def _range_of(b, e):
    """container C when (b, e) is (C.begin(), C.end()) / (C.cbegin(), C.cend()) of one side-effect free container expression, else None."""
    b, e = _unwrap(b), _unwrap(e)
    cb, ce = _member_call(b, ('begin', 'cbegin')), _member_call(e, ('end', 'cend'))
    if cb is None or ce is None or not _pure_lvalue(cb) or canon(cb, None) != canon(ce, None):
        return None
    return cb


def _lambda_param_var(lam, i=0):
    ps = lam.get('params') or []
    if len(ps) <= i:
        return None
    p = ps[i]
    return {'k': 'VarDecl', 'loc': p.get('loc'), 'name': p.get('name') or '', 'static': False, 't': p.get('t'), 'synthetic': 'lambda parameter'}


def _params_as_locals(body, lam):
    """the references to the parameters of the lambda become references to locals (the loop variable they turn into)"""
    locs = {p.get('loc') for p in lam.get('params') or () if p.get('loc')}

    def fn(x):
        if x.get('k') == 'DeclRefExpr' and x.get('refk') == 'ParmVar' and x.get('dloc') in locs:
            y = dict(x)
            y['refk'] = 'Var'
            y['local'] = True
            return y
        return None
    return _replace(body, fn)


def _desugar_algorithm(s):
    """`std::for_each(C.begin(), C.end(), [..](x) { B })` is `for (x : C) { B }` (a `return;` of the lambda is a `continue`);
    `std::transform(C.begin(), C.end(), std::back_inserter(V), [..](x) { return E; })` is `for (x : C) V.push_back(E);`."""
    call = _unwrap(s)
    if not isinstance(call, dict) or call.get('k') != 'CallExpr':
        return None
    nm = call.get('callee_name')
    args = (call.get('c') or [])[1:]
    if nm == 'std::for_each' and len(args) == 3:
        cont = _range_of(args[0], args[1])
        lam = _unwrap(args[2])
        if cont is None or not isinstance(lam, dict) or lam.get('k') != 'LambdaExpr' or len(lam.get('params') or ()) != 1 or not lam.get('c'):
            return None
        body = lam['c'][0]
        if any(x.get('k') == 'ReturnStmt' and x.get('c') for x in _walk_nolambda(body)):
            return None

        def ret2cont(x):
            if x.get('k') == 'ReturnStmt' and not x.get('c'):
                return {'k': 'ContinueStmt', 'loc': x.get('loc'), 'end': x.get('end'), 'id': x.get('id')}
            if x.get('k') == 'LambdaExpr':
                return x
            return None
        body = _params_as_locals(_replace(body, ret2cont), lam)
        return {'k': 'CXXForRangeStmt', 'loc': call.get('loc'), 'end': call.get('end'), 'id': call.get('id'), 'normalised_from': 'std::for_each',
                'slots': {'var': _lambda_param_var(lam), 'range': cont, 'body': body}}
    if nm == 'std::transform' and len(args) == 4:
        cont = _range_of(args[0], args[1])
        lam = _unwrap(args[3])
        bi = _unwrap(args[2])
        if cont is None or not isinstance(lam, dict) or lam.get('k') != 'LambdaExpr' or len(lam.get('params') or ()) != 1 or not lam.get('c'):
            return None
        if not isinstance(bi, dict) or bi.get('k') != 'CallExpr' or bi.get('callee_name') != 'std::back_inserter' or len(bi.get('c') or ()) != 2:
            return None
        vec = bi['c'][1]
        e = _single_return_expr(lam['c'][0])
        if e is None or not _pure_lvalue(vec):
            return None
        vt = _strip_t(vec.get('t'))
        mname = vt + '::push_back'
        me = {'k': 'MemberExpr', 'member': mname, 'arrow': False, 'is_field': False, 'c': [vec], 'loc': call.get('loc'), 't': '<bound member function type>'}
        pb = {'k': 'CXXMemberCallExpr', 'callee_name': mname, 'callee': mname + '(value_type &&)', 'c': [me, e], 'loc': call.get('loc'), 'end': call.get('end'), 't': 'void'}
        body = _params_as_locals({'k': 'CompoundStmt', 'c': [pb], 'loc': lam.get('loc')}, lam)
        return {'k': 'CXXForRangeStmt', 'loc': call.get('loc'), 'end': call.get('end'), 'id': call.get('id'), 'normalised_from': 'std::transform',
                'slots': {'var': _lambda_param_var(lam), 'range': cont, 'body': body}}
    return None


def _quantifier(e):
    """(name, container, lambda) when e is std::any_of / all_of / none_of(C.begin(), C.end(), [..](x) { return P; })"""
    e = _unwrap(e)
    if not isinstance(e, dict) or e.get('k') != 'CallExpr' or e.get('callee_name') not in ('std::any_of', 'std::all_of', 'std::none_of'):
        return None
    args = (e.get('c') or [])[1:]
    if len(args) != 3:
        return None
    cont = _range_of(args[0], args[1])
    lam = _unwrap(args[2])
    if cont is None or not isinstance(lam, dict) or lam.get('k') != 'LambdaExpr' or len(lam.get('params') or ()) != 1 or not lam.get('c'):
        return None
    if _single_return_expr(lam['c'][0]) is None:
        return None
    return e.get('callee_name').rsplit('::', 1)[-1], cont, lam, e


def _bool_lit(v, like):
    return {'k': 'CXXBoolLiteralExpr', 'val': bool(v), 't': 'bool', 'c': [], 'loc': like.get('loc'), 'end': like.get('end')}


def _not(e):
    return {'k': 'UnaryOperator', 'op': '!', 'c': [e], 't': 'bool', 'loc': e.get('loc'), 'end': e.get('end')}


def _search_loop(q, exit_stmt, negate_pred):
    """for (x : C) if ([!]P(x)) EXIT"""
    name, cont, lam, call = q
    pred = _single_return_expr(lam['c'][0])
    cond = _not(pred) if negate_pred else pred
    iff = {'k': 'IfStmt', 'loc': call.get('loc'), 'end': call.get('end'), 'slots': {'cond': cond, 'then': exit_stmt}}
    body = _params_as_locals({'k': 'CompoundStmt', 'c': [iff], 'loc': lam.get('loc')}, lam)
    return {'k': 'CXXForRangeStmt', 'loc': call.get('loc'), 'end': call.get('end'), 'id': call.get('id'), 'normalised_from': 'std::' + name,
            'slots': {'var': _lambda_param_var(lam), 'range': cont, 'body': body}}


def _desugar_quantifier(s):
    """statements whose value is a quantifier over a container are the search loop they stand for:
         return std::all_of(C, P);        ->  for (x : C) if (!P(x)) return false;  return true;
         return std::any_of(C, P);        ->  for (x : C) if (P(x)) return true;    return false;      (none_of: the two results swapped)
         if (std::any_of(C, P)) EXIT;     ->  for (x : C) if (P(x)) EXIT;                              (EXIT a single return / throw, no else)
         if (!std::all_of(C, P)) EXIT;    ->  for (x : C) if (!P(x)) EXIT;
       Returns the list of statements, or None."""
    k = s.get('k')
    if k == 'ReturnStmt' and s.get('c'):
        e = _unwrap(s['c'][0])
        neg = False
        while isinstance(e, dict) and e.get('k') == 'UnaryOperator' and e.get('op') == '!' and e.get('c'):
            e, neg = _unwrap(e['c'][0]), not neg
        q = _quantifier(e)
        if q is None:
            return None
        name = q[0]
        # value of the statement when the search hits / when it does not
        hit_value = {'any_of': True, 'all_of': False, 'none_of': False}[name]
        if neg:
            hit_value = not hit_value
        r1 = dict(s)
        r1['c'] = [_bool_lit(hit_value, s)]
        r2 = dict(s)
        r2['c'] = [_bool_lit(not hit_value, s)]
        r2['id'] = None
        return [_search_loop(q, r1, negate_pred=(name == 'all_of')), r2]
    if k == 'IfStmt' and (s.get('slots') or {}).get('else') is None and (s['slots'].get('init') is None) and s['slots'].get('condvar') is None:
        e = _unwrap(s['slots'].get('cond'))
        neg = False
        while isinstance(e, dict) and e.get('k') == 'UnaryOperator' and e.get('op') == '!' and e.get('c'):
            e, neg = _unwrap(e['c'][0]), not neg
        q = _quantifier(e)
        th = s['slots'].get('then')
        t1 = th
        while isinstance(t1, dict) and t1.get('k') == 'CompoundStmt' and len(t1.get('c') or ()) == 1:
            t1 = t1['c'][0]
        if q is None or not isinstance(t1, dict) or t1.get('k') not in ('ReturnStmt', 'CXXThrowExpr'):
            return None
        name = q[0]
        # the then-branch runs when the condition holds: any_of -> on a hit of P; !all_of -> on a hit of !P; none_of / !any_of / all_of need the whole range
        if (name == 'any_of' and not neg):
            return [_search_loop(q, th, negate_pred=False)]
        if (name == 'all_of' and neg):
            return [_search_loop(q, th, negate_pred=True)]
        if (name == 'none_of' and neg):
            return [_search_loop(q, th, negate_pred=False)]
        return None
    return None


def _lambda_of_decl(s):
    """(VarDecl, LambdaExpr) when s is `auto f = [..](..) { .. };`"""
    if s.get('k') != 'DeclStmt' or len(s.get('c') or ()) != 1 or s['c'][0].get('k') != 'VarDecl' or not isinstance(s['c'][0].get('init'), dict):
        return None
    lam = _unwrap(s['c'][0]['init'])
    if isinstance(lam, dict) and lam.get('k') == 'LambdaExpr' and lam.get('c'):
        return s['c'][0], lam
    return None


def _lambda_call(x, dloc):
    """argument list when x is the call `f(args)` of the local lambda declared at dloc"""
    if x.get('k') == 'CXXOperatorCallExpr' and x.get('op') == '()' and len(x.get('c') or ()) >= 2 and _is_ref(_unwrap(x['c'][1]), dloc):
        return list(x['c'][2:])
    return None


def desugar(body):
    """statement-level std::for_each / std::transform become loops; a lambda kept in a local (or invoked in place) becomes the block / expression it
    stands for where it is called (void lambdas called as a statement - early exits turned into nesting -, lambdas that are one `return E;` anywhere), and the
    lambda itself where the local is handed to an algorithm.  Returns the rewritten body and the number of rewrites."""
    count = [0]

    def lam_param_dicts(lam):
        return [{'loc': p.get('loc'), 'name': p.get('name'), 't': p.get('t')} for p in lam.get('params') or ()]

    def inline_stmt(lam, args):
        b = lam['c'][0]
        if any(x.get('k') == 'ReturnStmt' and x.get('c') for x in _walk_nolambda(b)):
            return None
        if any(x.get('k') == 'ReturnStmt' for x in _walk_nolambda(b)):
            b = _no_returns(b)
            if b is None:
                return None
        ps = lam_param_dicts(lam)
        if len(ps) != len(args):
            return None
        decls = []
        blk = _param_subst(b, ps, args, decls)
        if decls:
            blk = dict(blk)
            blk['c'] = decls + list(blk.get('c') or ())
        return blk

    def block(blk):
        cs = list(blk.get('c') or ())
        # in-place invoked lambda as an initialiser: T x = [..]() { pre; return E; }();
        out = []
        lambdas = {}        # dloc -> (decl stmt, VarDecl, LambdaExpr)
        for s in cs:
            s = rewrite(s)
            ld = _lambda_of_decl(s) if isinstance(s, dict) else None
            if ld is not None:
                lambdas[ld[0]['loc']] = (s, ld[0], ld[1])
                out.append(s)
                continue
            a = _desugar_algorithm(s) if isinstance(s, dict) else None
            if a is not None:
                count[0] += 1
                out.append(rewrite(a))
                continue
            qs = _desugar_quantifier(s) if isinstance(s, dict) else None
            if qs is not None:
                count[0] += 1
                out.extend(qs)
                continue
            out.append(s)
        if lambdas:
            decl_stmts = {id(v[0]) for v in lambdas.values()}

            def stmt_call(x):
                """the block that the statement `f(args);` stands for, else None"""
                if not isinstance(x, dict):
                    return None
                u = _unwrap(x)
                for dloc, (ds, vd, lam) in lambdas.items():
                    args = _lambda_call(u, dloc) if isinstance(u, dict) else None
                    if args is not None:
                        b2 = inline_stmt(lam, args)
                        if b2 is not None:
                            count[0] += 1
                            return b2
                return None

            def deep(n):
                if not isinstance(n, dict):
                    return n
                if n.get('k') == 'LambdaExpr':
                    return n
                # expression level first: one-`return` lambdas where they are called, the lambda itself where its name is handed to an algorithm
                for dloc, (ds, vd, lam) in lambdas.items():
                    args = _lambda_call(n, dloc)
                    if args is not None:
                        e = _single_return_expr(lam['c'][0])
                        ps = lam_param_dicts(lam)
                        if e is not None and len(ps) == len(args):
                            count[0] += 1
                            return _param_subst(e, ps, [deep(a) for a in args])
                o = dict(n)
                if n.get('k') in ('CallExpr', 'CXXMemberCallExpr') and (n.get('callee_name') or '').startswith('std::') and n.get('c'):
                    c2 = []
                    for a in n['c']:
                        u = _unwrap(a)
                        hit = None
                        for dloc, (ds, vd, lam) in lambdas.items():
                            if _is_ref(u, dloc):
                                hit = lam
                        if hit is not None:
                            count[0] += 1
                            c2.append(hit)
                        else:
                            c2.append(deep(a))
                    o['c'] = c2
                elif n.get('c'):
                    cs2 = []
                    for c in n['c']:
                        if n.get('k') == 'CompoundStmt':
                            b2 = stmt_call(c)
                            if b2 is not None:
                                cs2.append(deep(b2))
                                continue
                        cs2.append(deep(c))
                    o['c'] = cs2
                if isinstance(n.get('init'), dict):
                    o['init'] = deep(n['init'])
                if n.get('slots'):
                    sl = {}
                    for key, v in n['slots'].items():
                        if isinstance(v, dict) and key in ('then', 'else', 'body'):
                            b2 = stmt_call(v)
                            sl[key] = deep(b2) if b2 is not None else deep(v)
                        else:
                            sl[key] = deep(v) if isinstance(v, dict) else v
                    o['slots'] = sl
                return o
            res = []
            for s in out:
                if id(s) in decl_stmts:
                    res.append(s)
                    continue
                b2 = stmt_call(s)
                res.append(deep(b2) if b2 is not None else deep(s))
            # a lambda local that nobody refers to any more is gone
            final = []
            for s in res:
                drop = False
                for dloc, (ds, vd, lam) in lambdas.items():
                    if s is ds and not any(_is_ref(x, dloc) for y in res if y is not ds for x in _walk(y)):
                        drop = True
                if not drop:
                    final.append(s)
            out = final
        nb = dict(blk)
        nb['c'] = out
        return nb

    def rewrite(n):
        if not isinstance(n, dict):
            return n
        if n.get('k') == 'CompoundStmt':
            return block(n)
        o = dict(n)
        if n.get('c'):
            o['c'] = [rewrite(c) for c in n['c']]
        if isinstance(n.get('init'), dict):
            o['init'] = rewrite(n['init'])
        if n.get('slots'):
            sl = {}
            for key, v in n['slots'].items():
                v2 = rewrite(v) if isinstance(v, dict) else v
                if key in ('then', 'else', 'body') and isinstance(v2, dict) and v2.get('k') != 'CompoundStmt':
                    a = _desugar_algorithm(v2)
                    if a is not None:
                        count[0] += 1
                        v2 = rewrite(a)
                sl[key] = v2
            o['slots'] = sl
        return o
    return rewrite(body), count[0]
