"""Tree normalisation applied to every function body when a fact base is loaded.

Loops that visit every element of a container front to back are ONE construct, however they are spelled:

    for (const auto &x : C)                                  (the canonical form: CXXForRangeStmt)
    for (size_t i = 0; i < C.size(); ++i)   ... C[i] ...     when i is used for nothing else
    for (auto it = C.begin(); it != C.end(); ++it) ... *it / it->m ...   when it is used for nothing else

and a range-for over pairs whose variable is only used as `x.first` / `x.second` is the structured-binding form
`for (const auto &[a, b] : C)`.  The rewrite is purely syntactic and only done when it is exact (same elements, same order,
index / iterator not observable); anything else is left as it is.  The CFG is not rewritten (its elements keep pointing at the
original sub-expressions, which are reused inside the rewritten loop).
"""
from .expr import canon
from .facts import kids

MUT = {'insert', 'emplace', 'emplace_back', 'push_back', 'pop_back', 'erase', 'clear', 'resize', 'assign', 'swap', 'push', 'pop', 'reserve'}


def _walk(n):
    st = [n]
    while st:
        x = st.pop()
        if isinstance(x, dict):
            yield x
            st.extend(kids(x))


def _is_ref(n, dloc):
    return isinstance(n, dict) and n.get('k') == 'DeclRefExpr' and n.get('dloc') == dloc


def _member_call(n, names):
    """(base node) of a call `base.name()` with name in names, else None."""
    if not isinstance(n, dict) or n.get('k') != 'CXXMemberCallExpr' or len(n.get('c') or ()) != 1:
        return None
    if (n.get('callee_name') or '').rsplit('::', 1)[-1] not in names:
        return None
    me = n['c'][0]
    if me.get('k') != 'MemberExpr' or not me.get('c'):
        return None
    return me['c'][0]


def _pure_lvalue(n):
    """container expression without side effects: a variable / member chain."""
    while isinstance(n, dict):
        k = n.get('k')
        if k in ('DeclRefExpr', 'CXXThisExpr'):
            return True
        if k == 'MemberExpr':
            c = n.get('c') or []
            if not c:
                return True
            n = c[0]
            continue
        if k == 'CXXMemberCallExpr' and (n.get('callee') or '').endswith(' const') and len(n.get('c') or ()) == 1:
            me = n['c'][0]
            n = (me.get('c') or [None])[0] if me.get('k') == 'MemberExpr' else None
            if n is None:
                return True
            continue
        if k in ('UnaryOperator',) and n.get('op') == '*':
            n = (n.get('c') or [None])[0]
            continue
        if k == 'CXXOperatorCallExpr' and n.get('op') in ('*', '->', '[]') and (n.get('callee') or '').endswith(' const'):
            n = n['c'][1]
            continue
        return False
    return False


def _modifies(body, cterm):
    for x in _walk(body):
        if x.get('k') == 'CXXMemberCallExpr' and (x.get('callee_name') or '').rsplit('::', 1)[-1] in MUT and not (x.get('callee') or '').endswith(' const'):
            me = x['c'][0]
            base = (me.get('c') or [None])[0] if me.get('k') == 'MemberExpr' else None
            if base is not None and canon(base, None) == cterm:
                return True
    return False


def _elem_ref(decl, like):
    return {'k': 'DeclRefExpr', 'c': [], 'ref': decl['name'], 'refk': 'Var', 'local': True, 'dloc': decl['loc'], 'loc': like.get('loc'), 'end': like.get('end'), 't': like.get('t'), 'id': like.get('id')}


def _replace(n, fn):
    """rebuild the tree bottom-up; fn(node) -> replacement or None."""
    if not isinstance(n, dict):
        return n
    r = fn(n)
    if r is not None:
        return r
    out = dict(n)
    if n.get('c'):
        out['c'] = [_replace(c, fn) for c in n['c']]
    if isinstance(n.get('init'), dict):
        out['init'] = _replace(n['init'], fn)
    if n.get('slots'):
        out['slots'] = {k: (_replace(v, fn) if isinstance(v, dict) else v) for k, v in n['slots'].items()}
    return out


def _index_loop(n):
    sl = n.get('slots') or {}
    init, cond, inc, body = sl.get('init'), sl.get('cond'), sl.get('inc'), sl.get('body')
    if not (init and cond and inc and body) or init.get('k') != 'DeclStmt' or len(init.get('c') or ()) != 1:
        return None
    d = init['c'][0]
    if d.get('k') != 'VarDecl' or not isinstance(d.get('init'), dict) or d['init'].get('k') != 'IntegerLiteral' or d['init'].get('val') != 0:
        return None
    i = d['loc']
    if not (cond.get('k') == 'BinaryOperator' and cond.get('op') == '<' and _is_ref(cond['c'][0], i)):
        return None
    cont = _member_call(cond['c'][1], ('size',))
    if cont is None or not _pure_lvalue(cont):
        return None
    if not (inc.get('k') == 'UnaryOperator' and inc.get('op') == '++' and _is_ref(inc['c'][0], i)):
        return None
    cterm = canon(cont, None)
    # every use of i in the body is the index of C[i] / C.at(i)
    uses = [x for x in _walk(body) if _is_ref(x, i)]
    if not uses or _modifies(body, cterm):
        return None
    elems = []
    for x in _walk(body):
        if x.get('k') == 'CXXOperatorCallExpr' and x.get('op') == '[]' and len(x.get('c') or ()) == 3 and _is_ref(x['c'][2], i) and canon(x['c'][1], None) == cterm:
            elems.append(x)
        elif x.get('k') == 'CXXMemberCallExpr' and (x.get('callee_name') or '').endswith('::at') and len(x.get('c') or ()) == 2 and _is_ref(x['c'][1], i):
            me = x['c'][0]
            if me.get('k') == 'MemberExpr' and me.get('c') and canon(me['c'][0], None) == cterm:
                elems.append(x)
    if len(elems) != len(uses):
        return None
    var = {'k': 'VarDecl', 'loc': d['loc'], 'name': d['name'] + '$elem', 'static': False, 't': elems[0].get('t'), 'synthetic': 'index-loop'}
    ids = {id(e) for e in elems}
    nb = _replace(body, lambda x: _elem_ref(var, x) if id(x) in ids else None)
    return {'k': 'CXXForRangeStmt', 'loc': n.get('loc'), 'end': n.get('end'), 'id': n.get('id'), 'normalised_from': 'index loop', 'slots': {'var': var, 'range': cont, 'body': nb}}


def _iter_loop(n):
    sl = n.get('slots') or {}
    init, cond, inc, body = sl.get('init'), sl.get('cond'), sl.get('inc'), sl.get('body')
    if not (init and cond and inc and body) or init.get('k') != 'DeclStmt' or len(init.get('c') or ()) != 1:
        return None
    d = init['c'][0]
    if d.get('k') != 'VarDecl' or not isinstance(d.get('init'), dict):
        return None
    it = d['loc']
    x0 = d['init']
    while x0.get('k') in ('CXXConstructExpr',) and len(x0.get('c') or ()) == 1:
        x0 = x0['c'][0]
    cont = _member_call(x0, ('begin', 'cbegin'))
    if cont is None or not _pure_lvalue(cont):
        return None
    cterm = canon(cont, None)
    ops = cond.get('c') or []
    if cond.get('k') == 'CXXOperatorCallExpr' and cond.get('op') == '!=' and len(ops) == 3:
        a, b = ops[1], ops[2]
    elif cond.get('k') == 'BinaryOperator' and cond.get('op') == '!=' and len(ops) == 2:
        a, b = ops
    else:
        return None
    if _is_ref(b, it):
        a, b = b, a
    while isinstance(b, dict) and b.get('k') == 'CXXConstructExpr' and len(b.get('c') or ()) == 1:
        b = b['c'][0]
    endc = _member_call(b, ('end', 'cend'))
    if not _is_ref(a, it) or endc is None or canon(endc, None) != cterm:
        return None
    incv = inc
    if not ((incv.get('k') == 'CXXOperatorCallExpr' and incv.get('op') == '++' and _is_ref(incv['c'][1], it)) or
            (incv.get('k') == 'UnaryOperator' and incv.get('op') == '++' and _is_ref(incv['c'][0], it))):
        return None
    uses = [x for x in _walk(body) if _is_ref(x, it)]
    if not uses or _modifies(body, cterm):
        return None
    derefs = []
    for x in _walk(body):
        if x.get('k') == 'CXXOperatorCallExpr' and x.get('op') in ('*', '->') and len(x.get('c') or ()) == 2 and _is_ref(x['c'][1], it):
            derefs.append(x)
        elif x.get('k') == 'UnaryOperator' and x.get('op') == '*' and _is_ref((x.get('c') or [None])[0], it):
            derefs.append(x)
    if len(derefs) != len(uses):
        return None
    var = {'k': 'VarDecl', 'loc': d['loc'], 'name': d['name'] + '$elem', 'static': False, 't': derefs[0].get('t'), 'synthetic': 'iterator-loop'}
    ids = {id(e): e for e in derefs}

    def fn(x):
        if id(x) in ids:
            return _elem_ref(var, x)
        # it->m : MemberExpr(arrow) over `operator->(it)`; the element is an object, not a pointer
        if x.get('k') == 'MemberExpr' and x.get('arrow') and x.get('c') and id(x['c'][0]) in ids and x['c'][0].get('op') == '->':
            y = dict(x)
            y['arrow'] = False
            y['c'] = [_elem_ref(var, x['c'][0])]
            return y
        return None
    nb = _replace(body, fn)
    return {'k': 'CXXForRangeStmt', 'loc': n.get('loc'), 'end': n.get('end'), 'id': n.get('id'), 'normalised_from': 'iterator loop', 'slots': {'var': var, 'range': cont, 'body': nb}}


def _bloc(vloc, which):
    """a location for a synthetic binding: same file and line as the loop variable, a column no real token has."""
    a = vloc.rsplit(':', 2)
    try:
        return '%s:%s:%d' % (a[0], a[1], int(a[2]) * 1000 + which + 1)
    except (ValueError, IndexError):
        return '%s#%d' % (vloc, which)


def _pair_bindings(n):
    """for (x : C) using only x.first / x.second  ->  for ([x$first, x$second] : C)."""
    sl = n.get('slots') or {}
    var, body = sl.get('var'), sl.get('body')
    if not var or var.get('bindings') or not var.get('name') or body is None:
        return None
    v = var['loc']
    uses = [x for x in _walk(body) if _is_ref(x, v)]
    if not uses:
        return None
    mems = [x for x in _walk(body) if x.get('k') == 'MemberExpr' and x.get('c') and _is_ref(x['c'][0], v) and (x.get('member') or '').rsplit('::', 1)[-1] in ('first', 'second')
            and (x.get('member') or '').startswith('std::pair<')]
    if len(mems) != len(uses):
        return None
    names = [var['name'] + '$first', var['name'] + '$second']
    ids = {id(m): m for m in mems}

    def fn(x):
        if id(x) in ids:
            which = 0 if x['member'].endswith('first') else 1
            return {'k': 'DeclRefExpr', 'c': [], 'ref': names[which], 'refk': 'Binding', 'local': True, 'dloc': _bloc(v, which), 'loc': x.get('loc'), 'end': x.get('end'), 't': x.get('t'), 'id': x.get('id')}
        return None
    nv = dict(var)
    nv['bindings'] = names
    nv['name'] = ''
    out = dict(n)
    out['slots'] = dict(sl)
    out['slots']['var'] = nv
    out['slots']['body'] = _replace(body, fn)
    out['normalised_from'] = (n.get('normalised_from') or 'range-for') + ' + pair members'
    return out


def normalise(n):
    """returns the normalised copy of a statement tree (children first)."""
    if not isinstance(n, dict):
        return n
    out = dict(n)
    if n.get('c'):
        out['c'] = [normalise(c) for c in n['c']]
    if isinstance(n.get('init'), dict):
        out['init'] = normalise(n['init'])
    if n.get('slots'):
        out['slots'] = {k: (normalise(v) if isinstance(v, dict) else v) for k, v in n['slots'].items()}
    if out.get('k') == 'ForStmt':
        r = _index_loop(out) or _iter_loop(out)
        if r is not None:
            out = r
    if out.get('k') == 'CXXForRangeStmt':
        r = _pair_bindings(out)
        if r is not None:
            out = r
    return out


# ---------------------------------------------------------------------------------------------------------------------------------
# helpers that the reviewed inventory does not know

_INL = [0]


def _param_subst(body, params, args):
    """copy of `body` with every reference to a parameter replaced by the corresponding argument expression; the locals of the copy get
    locations of their own (two inlined copies of one helper must not share their locals)."""
    m = {}
    for p, a in zip(params, args):
        if p.get('loc'):
            m[p['loc']] = a
    _INL[0] += 1
    k = _INL[0]
    locs = {}
    for x in _walk(body):
        if x.get('k') == 'VarDecl' and x.get('loc'):
            locs[x['loc']] = _bloc(x['loc'], 100 + k)

    def fn(x):
        if x.get('k') == 'DeclRefExpr' and x.get('dloc') in m:
            a = m[x['dloc']]
            return dict(a)
        if x.get('k') == 'DeclRefExpr' and x.get('dloc') in locs:
            y = dict(x)
            y['dloc'] = locs[x['dloc']]
            return y
        return None
    out = _replace(body, fn)

    def reloc(n):
        if not isinstance(n, dict):
            return n
        o = dict(n)
        if o.get('k') == 'VarDecl' and o.get('loc') in locs:
            o['loc'] = locs[o['loc']]
        if o.get('c'):
            o['c'] = [reloc(c) for c in o['c']]
        if isinstance(o.get('init'), dict):
            o['init'] = reloc(o['init'])
        if o.get('slots'):
            o['slots'] = {kk: (reloc(v) if isinstance(v, dict) else v) for kk, v in o['slots'].items()}
        return o
    return reloc(out)


def _returns(body):
    return [x for x in _walk_nolambda(body) if x.get('k') == 'ReturnStmt']


def _walk_nolambda(n):
    st = [n]
    while st:
        x = st.pop()
        if isinstance(x, dict):
            yield x
            if x.get('k') == 'LambdaExpr' and x is not n:
                continue
            st.extend(kids(x))


def _single_return_expr(body):
    if body is None or body.get('k') != 'CompoundStmt':
        return None
    st = [c for c in (body.get('c') or ()) if c.get('k') != 'NullStmt']
    if len(st) == 1 and st[0].get('k') == 'ReturnStmt' and st[0].get('c'):
        return st[0]['c'][0]
    return None


def _on_this(call):
    """is the member call made on *this (implicitly or explicitly)?"""
    if call.get('k') == 'CallExpr':
        return True
    me = (call.get('c') or [None])[0]
    if not isinstance(me, dict) or me.get('k') != 'MemberExpr':
        return False
    base = (me.get('c') or [None])[0]
    return base is None or base.get('k') == 'CXXThisExpr'


def inline_helpers(functions, inventory, root):
    """functions: {id: dict}.  A *new helper* is a function defined in the repository that the reviewed inventory does not list, non-virtual, with a body,
    called on *this (or free / static).  Its calls are replaced, where the replacement is exact:
      - `h(args)` anywhere, when the body of h is a single `return E;`            -> E[args]
      - `h(args);` as a statement, when h returns nothing and has no return        -> { body[args] }
      - `return h(args);`                                                          -> { body[args] }   (the returns of h are returns of the caller)
      - `T x = h(args);` when the only return of h is its last statement `return E;` -> { body without it; } T x = E[args];
    Every function that got a helper inlined keeps the list in d['_inlined']; the helpers are flagged d['_new_helper'] = True."""
    new = {}
    for fid, d in functions.items():
        if fid in inventory or not d.get('body') or not (d.get('loc') or '').startswith(root):
            continue
        if d.get('virtual') or d.get('kind') in ('ctor', 'dtor'):
            continue
        d['_new_helper'] = True
        new[fid] = d
    if not new:
        return 0
    # no recursion among helpers
    def calls_of(d):
        return {x.get('callee') for x in _walk(d['body']) if x.get('callee') in new}
    for fid in list(new):
        if fid in calls_of(new[fid]):
            del new[fid]
    count = 0

    def expand_stmt(s, depth=0):
        """returns a list of statements replacing s, or None."""
        nonlocal count
        if depth > 4:
            return None
        k = s.get('k')
        call = None
        if k in ('CXXMemberCallExpr', 'CallExpr') and s.get('callee') in new:
            call, mode = s, 'stmt'
        elif k == 'ReturnStmt' and s.get('c') and s['c'][0].get('k') in ('CXXMemberCallExpr', 'CallExpr') and s['c'][0].get('callee') in new:
            call, mode = s['c'][0], 'tail'
        elif k == 'DeclStmt' and len(s.get('c') or ()) == 1 and s['c'][0].get('k') == 'VarDecl' and isinstance(s['c'][0].get('init'), dict):
            x = s['c'][0]['init']
            while x.get('k') == 'CXXConstructExpr' and len(x.get('c') or ()) == 1:
                x = x['c'][0]
            if x.get('k') in ('CXXMemberCallExpr', 'CallExpr') and x.get('callee') in new:
                call, mode = x, 'init'
        if call is None and k == 'IfStmt' and not (s.get('slots') or {}).get('else') and not (s.get('slots') or {}).get('init'):
            # `if (!h(args)) return false;` where h answers false on its early exits and true only at its very end: the body of h with its last
            # `return true;` dropped does exactly that
            c = s['slots'].get('cond')
            t = s['slots'].get('then')
            while isinstance(t, dict) and t.get('k') == 'CompoundStmt' and len(t.get('c') or ()) == 1:
                t = t['c'][0]
            def lit(r, v):
                return isinstance(r, dict) and r.get('k') == 'ReturnStmt' and r.get('c') and r['c'][0].get('k') == 'CXXBoolLiteralExpr' and bool(r['c'][0].get('val')) == v
            if isinstance(c, dict) and c.get('k') == 'UnaryOperator' and c.get('op') == '!' and c.get('c') and c['c'][0].get('k') in ('CXXMemberCallExpr', 'CallExpr') \
                    and c['c'][0].get('callee') in new and _on_this(c['c'][0]) and lit(t, False):
                cl = c['c'][0]
                h = new[cl['callee']]
                top = list(h['body'].get('c') or ())
                rets = _returns(h['body'])
                args = (cl.get('c') or [])[1:]
                if top and lit(top[-1], True) and all(lit(r, False) for r in rets if r is not top[-1]) and len(args) == len(h.get('params') or ()):
                    count += 1
                    pre = {'k': 'CompoundStmt', 'c': top[:-1], 'loc': h['body'].get('loc')}
                    return [_param_subst(pre, h.get('params') or [], args)]
        if call is None or not _on_this(call):
            return None
        h = new[call['callee']]
        args = (call.get('c') or [])[1:]
        params = h.get('params') or []
        if len(args) != len(params):
            return None
        body = h['body']
        rets = _returns(body)
        if mode == 'stmt':
            if rets:
                return None
            count += 1
            return [_param_subst(body, params, args)]
        if mode == 'tail':
            count += 1
            return [_param_subst(body, params, args)]
        if mode == 'init':
            top = list(body.get('c') or ())
            if len(rets) != 1 or not top or top[-1] is not rets[0] or not rets[0].get('c'):
                return None
            pre = {'k': 'CompoundStmt', 'c': top[:-1], 'loc': body.get('loc')}
            pre = _param_subst(pre, params, args)
            e = _param_subst(rets[0]['c'][0], params, args)
            ns = dict(s)
            nd = dict(s['c'][0])
            nd['init'] = e
            ns['c'] = [nd]
            count += 1
            return list(pre.get('c') or ()) + [ns]
        return None

    def rewrite(n):
        nonlocal count
        if not isinstance(n, dict):
            return n
        out = dict(n)
        if n.get('c'):
            cs = []
            for c in n['c']:
                c2 = rewrite(c)
                if n.get('k') == 'CompoundStmt':
                    ex = expand_stmt(c2)
                    if ex is not None:
                        cs.extend(rewrite(x) for x in ex)
                        continue
                cs.append(c2)
            out['c'] = cs
        if isinstance(n.get('init'), dict):
            out['init'] = rewrite(n['init'])
        if n.get('slots'):
            sl = {}
            for key, v in n['slots'].items():
                v2 = rewrite(v) if isinstance(v, dict) else v
                if key in ('then', 'else', 'body') and isinstance(v2, dict) and v2.get('k') != 'CompoundStmt':
                    ex = expand_stmt(v2)
                    if ex is not None:
                        v2 = {'k': 'CompoundStmt', 'c': [rewrite(x) for x in ex], 'loc': v2.get('loc')}
                sl[key] = v2
            out['slots'] = sl
        # expression-level: single-return helpers
        if out.get('k') in ('CXXMemberCallExpr', 'CallExpr') and out.get('callee') in new and _on_this(out):
            h = new[out['callee']]
            e = _single_return_expr(h['body'])
            args = (out.get('c') or [])[1:]
            if e is not None and len(args) == len(h.get('params') or ()):
                count += 1
                r = _param_subst(e, h.get('params') or [], args)
                return rewrite(r)
        return out
    for fid, d in functions.items():
        if not d.get('body') or not (d.get('loc') or '').startswith(root) or fid in new:
            continue
        if not any(x.get('callee') in new for x in _walk(d['body'])):
            continue
        before = count
        d['body'] = rewrite(d['body'])
        if count > before:
            d['_inlined'] = sorted({x for x in new if x in {y.get('callee') for y in _walk(d['body'])}} | set(d.get('_inlined') or ()))
    return count
