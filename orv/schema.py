"""Clause-schema extraction shared by the rule packs (DESIGN 3.E): the set of clauses a function posts, each as
(enclosing loops with positional variable names, set of canonical literal terms)."""
from .expr import LocalEnv, canon, show
from .facts import AnalysisBroken, kids, short, walk
from .tables import VecBuilder, clause_of_call

CLAUSE_SINKS = ('smt::sat_core::new_clause',)


def call_ctx(f, call, env):
    """loops (and guards inside them) enclosing a call, outermost first; plus the path conditions outside any loop."""
    anc = list(f.ancestors(call))
    anc.reverse()
    loops, when = [], []
    prev = None
    for i, a in enumerate(anc):
        k = a.get('k')
        nxt = anc[i + 1] if i + 1 < len(anc) else call
        if k == 'CompoundStmt':
            # an earlier `if (c) continue / break / return / throw;` in the same block means the clause is only posted when c is false (inside a loop
            # body: a guard of the iteration; outside: a path condition).
            # Exits taken because an earlier clause failed (`if (!new_clause(..)) return ..`) are not conditions of the schema.
            for sib in kids(a):
                if sib is nxt:
                    break
                if sib.get('k') == 'IfStmt' and sib['slots'].get('else') is None and _always_exits(sib['slots'].get('then')) \
                        and not any((m.get('callee_name') or '') in CLAUSE_SINKS or (m.get('callee_name') or '').endswith(('::propagate', '::new_clause')) for m in walk(sib['slots'].get('cond'))):
                    (loops if loops else when).extend(_literals(canon(sib['slots'].get('cond'), env, subst=False), False))
        if k == 'CXXForRangeStmt':
            v = a['slots']['var']
            loops.append(('each', canon(a['slots']['range'], env, subst=False), tuple(v['bindings']) if v.get('bindings') else v.get('name')))
        elif k == 'ForStmt':
            sl = a['slots']
            init = sl.get('init')
            v, iv = None, None
            if init and init.get('k') == 'DeclStmt':
                d = init['c'][0]
                v, iv = d.get('name'), canon(d.get('init'), env, subst=False)
            loops.append(('for', v, iv, canon(sl.get('cond'), env, subst=False), canon(sl.get('inc'), env, subst=False)))
        elif k in ('WhileStmt', 'DoStmt'):
            loops.append(('while', canon(a['slots'].get('cond'), env, subst=False)))
        elif k == 'IfStmt':
            sl = a['slots']
            ini = sl.get('init')
            if ini is not None and ini.get('k') == 'DeclStmt' and not _contains(ini, call):
                for d in ini.get('c') or ():
                    if d.get('k') == 'VarDecl' and isinstance(d.get('init'), dict):
                        (loops if loops else when).append(('let', d['name'], canon(d['init'], env, subst=False)))
            in_cond = _contains(sl.get('cond'), call)
            if in_cond:
                continue
            pol = _contains(sl.get('then'), call)
            # `if (!new_clause(..)) return` style guards between sibling statements never enclose the call body
            for entry in _literals(canon(sl.get('cond'), env, subst=False), pol):
                (loops if loops else when).append(entry)
    return loops, when


def _literals(t, pol):
    """a guard as a list of ('if', atom, polarity): negations stripped, conjunctions that hold and disjunctions that fail split into their parts
    (`if (!a)`, `if (a) {} else`, `if (x && y)` and nested ifs give the same entries)."""
    while isinstance(t, tuple) and len(t) == 2 and t[0] == '!':
        t, pol = t[1], not pol
    if isinstance(t, tuple) and len(t) == 3 and t[0] == '<=':
        t, pol = ('<', t[2], t[1]), not pol          # a <= b  is  not (b < a): one spelling per comparison
    if isinstance(t, tuple) and t and ((t[0] == '&&' and pol) or (t[0] == '||' and not pol)):
        out = []
        for x in t[1:]:
            out.extend(_literals(x, pol))
        return out
    return [('if', t, pol)]


def _always_exits(st):
    if st is None:
        return False
    k = st.get('k')
    if k in ('ContinueStmt', 'BreakStmt', 'ReturnStmt', 'CXXThrowExpr', 'GotoStmt'):
        return True
    if k == 'CompoundStmt':
        ks = list(kids(st))
        return bool(ks) and _always_exits(ks[-1])
    return False


def _contains(root, n):
    if root is None:
        return False
    for m in walk(root):
        if m is n:
            return True
    return False


def _rename(t, ren):
    if isinstance(t, str):
        return ren.get(t, t)
    if isinstance(t, tuple):
        return tuple(_rename(x, ren) for x in t)
    return t


def norm_clause(items, loops):
    """(loops', literals') with loop variables renamed positionally."""
    ren = {}
    nl = []
    for lp in loops:
        if lp[0] == 'each':
            rng = _rename(lp[1], ren)
            k = len([x for x in nl if x[0] in ('each', 'for')])
            if isinstance(lp[2], tuple):
                for bi, bn in enumerate(lp[2]):
                    ren[bn] = '$%d.%d' % (k, bi)
            else:
                ren[lp[2]] = '$%d' % k
            nl.append(('each', rng))
        elif lp[0] == 'for':
            nm = '$%d' % len([x for x in nl if x[0] in ('each', 'for')])
            init = _rename(lp[2], ren)
            ren[lp[1]] = nm
            nl.append(('for', init, _rename(lp[3], ren), _rename(lp[4], ren)))
        elif lp[0] == 'let':
            ren[lp[1]] = _rename(lp[2], ren)        # if-init declaration: substituted into the guard and the literals
        elif lp[0] == 'if':
            nl.append(('if', resort(_rename(lp[1], ren)), lp[2]))
        else:
            nl.append(lp)
    lits = []
    for it in items:
        if it[0] == 'one':
            lits.append(resort(_rename(it[1], ren)))
        elif it[0] == 'all':
            lits.append(('all', it[1]))
        else:
            inner = dict(ren)
            cs = []
            for c in it[1]:
                if c[0] == 'each':
                    inner[c[2]] = '$e%d' % len(cs)
                    cs.append(('each', _rename(c[1], inner)))
                elif c[0] == 'if':
                    cs.append(('if', _rename(c[1], inner), c[2]))
                else:
                    cs.append((c[0], _rename(c[1], inner) if c[1] is not None else None))
            lits.append(('ctx', tuple(cs), _rename(it[2], inner)))
    return tuple(nl), frozenset(lits)


_COMM = {'+', '*', '&&', '||', '==', '!=', '&', '|', '^'}


def resort(t):
    """re-establish the canonical operand order of commutative operators after a renaming."""
    if isinstance(t, tuple):
        t = tuple(resort(x) for x in t)
        if t and t[0] in _COMM and len(t) == 3:
            a, b = sorted(t[1:], key=repr)
            return (t[0], a, b)
    return t


def _mutated_locals(f):
    """locals on which a non-const member function / mutating operator is applied: never aliases."""
    m = set()
    for n in f.nodes():
        if n.get('k') == 'CXXMemberCallExpr':
            me = n['c'][0]
            base = (me.get('c') or [None])[0] if me.get('k') == 'MemberExpr' else None
            if base is not None and base.get('k') == 'DeclRefExpr' and base.get('local') and not (n.get('callee') or '').endswith(' const'):
                m.add(base.get('dloc'))
        if n.get('k') == 'CXXOperatorCallExpr' and n.get('op') in ('+=', '-=', '*=', '/=', '=', '++', '--', '[]'):
            c = n['c']
            if len(c) > 1 and c[1].get('k') == 'DeclRefExpr' and c[1].get('local') and not (n.get('callee') or '').endswith(' const'):
                m.add(c[1].get('dloc'))
        if n.get('k') == 'UnaryOperator' and n.get('op') == '&':
            c = n.get('c') or []
            if c and c[0].get('k') == 'DeclRefExpr' and c[0].get('local'):
                m.add(c[0].get('dloc'))
    return m


def posted(fs, f, sinks=CLAUSE_SINKS, env=None, alias=True):
    env = env or LocalEnv(f)
    saved = (getattr(env, 'alias', False), getattr(env, 'no_alias', ()))
    if alias:
        env.alias, env.no_alias = True, (getattr(env, 'no_alias', None) or _mutated_locals(f))
    try:
        vb = VecBuilder(f, env)
        out = []
        for n in f.nodes():
            if n.get('callee_name') in sinks:
                items = clause_of_call(f, n, env, vb)
                if items is None:
                    raise AnalysisBroken('%s: clause at %s is built in a way the schema extractor does not recognise' % (f.id, short(n.get('loc'))))
                loops, when = call_ctx(f, n, env)
                out.append((norm_clause(items, loops), when, n))
    finally:
        env.alias, env.no_alias = saved
    return env, out




def show_clause(c):
    loops, lits = c
    s = '{' + ', '.join(sorted(show(l) for l in lits)) + '}'
    for lp in reversed(loops):
        s = '%s %s: %s' % (lp[0], ' '.join(show(x) for x in lp[1:]), s)
    return s


def failure_block(f, call):
    """(block, if-statement): the statements executed when the tested call returned false - the arm of the `if` that tests it which its failure selects
    (`if (!c) {B}`, `if (c) {..} else {B}`), or, when the failure falls out of the `if` and its success arm always leaves (`if (c) continue; B`), the
    statements that follow in the same block (as a synthetic compound).  None when the call is not tested that way."""
    from .tables import decisions
    iff = None
    for a in f.ancestors(call):
        if a.get('k') == 'IfStmt' and _contains(a['slots'].get('cond'), call):
            iff = a
            break
        if a.get('k') in ('CompoundStmt', 'ForStmt', 'WhileStmt', 'DoStmt', 'CXXForRangeStmt', 'LambdaExpr'):
            break
    if iff is None:
        return None
    outs = {o for atoms, o in decisions(iff['slots'].get('cond')) if any(n is call and pol is False for n, pol in atoms)}
    if len(outs) != 1:
        return None
    o = outs.pop()
    arm, other = (iff['slots'].get('then'), iff['slots'].get('else')) if o else (iff['slots'].get('else'), iff['slots'].get('then'))
    if arm is not None:
        return arm, iff
    if other is not None and _always_exits(other):
        par = f.parent(iff)
        if par is not None and par.get('k') == 'CompoundStmt':
            sibs = list(kids(par))
            i = [k for k, x in enumerate(sibs) if x is iff]
            if i:
                return {'k': 'CompoundStmt', 'c': sibs[i[0] + 1:], 'loc': iff.get('loc'), 'synthetic': 'after an early exit'}, iff
    return None
