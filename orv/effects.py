"""Stores / mutations of member state, per function (who-may-write rules, undo-log typestate)."""
from .expr import canon
from .facts import kids, walk

MUTATING = {'insert', 'emplace', 'emplace_back', 'push_back', 'pop_back', 'erase', 'clear', 'resize', 'insert_or_assign',
            'try_emplace', 'swap', 'assign', 'push', 'pop', 'emplace_hint', 'reserve', 'fill'}
ASSIGN_OPS = {'=', '+=', '-=', '*=', '/=', '%=', '|=', '&=', '^=', '<<=', '>>='}


_FN = [None]


def _ref_init(n):
    """initialiser of a local declared as a reference (`auto &x = E;`): x IS E."""
    fn = _FN[0]
    if fn is None or not n.get('local') or not hasattr(fn, 'decl'):
        return None
    d = fn.decl(n.get('dloc'))
    if d is not None and (d.get('t') or '').rstrip().endswith('&') and isinstance(d.get('init'), dict) and not d.get('bindings'):
        return d['init']
    return None


def root_of(n):
    """(kind, name, node): the variable an lvalue expression is rooted in.
    kind 'field' (member of *this), 'local', 'param', 'other'."""
    guard = 0
    while n is not None and guard < 64:
        guard += 1
        k = n.get('k')
        if k == 'MemberExpr':
            c = n.get('c') or []
            base = c[0] if c else None
            if n.get('is_field') and (base is None or base.get('k') == 'CXXThisExpr'):
                return 'field', n['member'], n
            if base is None:
                return 'other', None, n
            if not n.get('is_field'):
                return 'other', None, n
            n = base
            continue
        if k == 'DeclRefExpr':
            if n.get('refk') == 'ParmVar':
                return 'param', n.get('ref'), n
            if n.get('local'):
                ri = _ref_init(n)
                if ri is not None:
                    n = ri
                    continue
                return 'local', n.get('ref'), n
            return 'other', n.get('ref'), n
        if k == 'CXXOperatorCallExpr' and n.get('op') in ('[]', '*', '->'):
            n = n['c'][1]
            continue
        if k == 'ArraySubscriptExpr':
            n = n['c'][0]
            continue
        if k == 'UnaryOperator' and n.get('op') in ('*', '&'):
            n = n['c'][0]
            continue
        if k == 'CXXMemberCallExpr':
            me = n['c'][0]
            nm = (me.get('member') or '').rsplit('::', 1)[-1]
            if nm in ('at', 'back', 'front', 'begin', 'end', 'find', 'operator[]', 'get', 'top'):
                c = me.get('c') or []
                n = c[0] if c else None
                continue
            return 'other', None, n
        if k in ('CXXStaticCastExpr', 'CXXConstCastExpr', 'CStyleCastExpr'):
            n = n['c'][0]
            continue
        return 'other', None, n
    return 'other', None, n


def path_fields(n):
    """all field members on the access path of an lvalue, outermost (the stored-to one) first."""
    out = []
    guard = 0
    while n is not None and guard < 64:
        guard += 1
        k = n.get('k')
        if k == 'MemberExpr':
            if n.get('is_field'):
                out.append(n['member'])
            c = n.get('c') or []
            n = c[0] if c else None
            continue
        if k == 'CXXOperatorCallExpr' and n.get('op') in ('[]', '*', '->'):
            n = n['c'][1]
            continue
        if k in ('ArraySubscriptExpr', 'CXXStaticCastExpr', 'CXXConstCastExpr', 'CStyleCastExpr'):
            n = n['c'][0]
            continue
        if k == 'UnaryOperator' and n.get('op') in ('*', '&'):
            n = n['c'][0]
            continue
        if k == 'CXXMemberCallExpr':
            me = n['c'][0]
            nm = (me.get('member') or '').rsplit('::', 1)[-1]
            if nm in ('at', 'back', 'front', 'begin', 'end', 'find', 'operator[]', 'get', 'top'):
                c = me.get('c') or []
                n = c[0] if c else None
                continue
            return out
        if k == 'DeclRefExpr':
            ri = _ref_init(n)
            if ri is not None:
                n = ri
                continue
        return out
    return out


class Store:
    __slots__ = ('kind', 'root', 'target', 'node', 'how', 'value', 'fields')

    def __init__(self, kind, root, target, node, how, value=None):
        self.kind, self.root, self.target, self.node, self.how, self.value = kind, root, target, node, how, value
        self.fields = path_fields(target) if target is not None else ([root] if root else [])


def stores(fn):
    """every mutation of a variable in fn: assignments, ++/--, mutating container calls."""
    out = []
    _FN[0] = fn if hasattr(fn, 'decl') else getattr(fn, 'fn', None)
    for n in fn.nodes():
        if n.get('as'):
            continue
        k = n.get('k')
        if k in ('BinaryOperator', 'CompoundAssignOperator') and n.get('op') in ASSIGN_OPS:
            tgt = n['c'][0]
            kind, root, _ = root_of(tgt)
            out.append(Store(kind, root, tgt, n, n['op'], n['c'][1]))
        elif k == 'CXXOperatorCallExpr' and n.get('op') in ASSIGN_OPS:
            tgt = n['c'][1]
            kind, root, _ = root_of(tgt)
            out.append(Store(kind, root, tgt, n, n['op'], n['c'][2] if len(n['c']) > 2 else None))
        elif k == 'UnaryOperator' and n.get('op') in ('++', '--'):
            tgt = n['c'][0]
            kind, root, _ = root_of(tgt)
            out.append(Store(kind, root, tgt, n, n['op']))
        elif k == 'CXXOperatorCallExpr' and n.get('op') in ('++', '--'):
            tgt = n['c'][1]
            kind, root, _ = root_of(tgt)
            out.append(Store(kind, root, tgt, n, n['op']))
        elif k == 'CXXMemberCallExpr':
            me = n['c'][0]
            if me.get('k') != 'MemberExpr':
                continue
            nm = (me.get('member') or '').rsplit('::', 1)[-1]
            if nm in MUTATING and not (n.get('callee') or '').endswith(' const') and (me.get('member') or '').startswith('std::'):
                c = me.get('c') or []
                tgt = c[0] if c else None
                kind, root, _ = root_of(tgt)
                out.append(Store(kind, root, tgt, n, nm, n['c'][1:]))
        elif k == 'CallExpr' and n.get('callee_name') in ('std::fill', 'std::swap', 'std::sort', 'std::reverse'):
            args = n['c'][1:]
            if args:
                kind, root, _ = root_of(args[0])
                out.append(Store(kind, root, args[0], n, n['callee_name'].rsplit('::', 1)[-1], args))
    return out


def _fully_inlined(fs, f):
    """no call to f is left anywhere in the (normalised) program."""
    c = getattr(fs, '_left_calls', None)
    if c is None:
        c = set()
        for g in fs.defined():
            if g.body is None:
                continue
            for n in g.nodes():
                if n.get('callee'):
                    c.add(n['callee'])
        fs._left_calls = c
    return f.id not in c


def field_writers(fs, field):
    """{function id: [Store]} for every function that mutates member `field` (qualified name)."""
    out = {}
    for f in fs.defined():
        if f.d.get('_new_helper') and _fully_inlined(fs, f):
            continue        # a helper unknown to the reviewed inventory whose every call was inlined: its stores are the stores of its callers
        for s in stores(f):
            if field in s.fields:
                out.setdefault(f.id, []).append(s)
        # constructor initialisers
        for io in f.get('inits') or ():
            if io.get('member') and f.get('class') and '%s::%s' % (f['class'], io['member']) == field:
                out.setdefault(f.id, []).append(Store('field', field, None, io.get('init') or {}, 'ctor-init'))
    return out
